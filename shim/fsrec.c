/* fsrec — LD_PRELOAD recorder of file-system mutations under one directory.
 *
 * Used by the `disk` engine (DESIGN §5): the real memvid code runs unmodified; every
 * mutation of a file below $FSREC_DIR (write / pwrite / ftruncate / fsync / fdatasync /
 * rename / unlink / copy_file_range / open with O_CREAT|O_TRUNC / flock) is appended, with
 * its data, to $FSREC_LOG as one JSON line, in program order under one mutex.  The engine
 * rebuilds from that log, offline, the directory as it would be after any prefix of the
 * operations (process crash) and after losing any admissible subset of un-synced
 * operations (power loss).
 *
 * fsrec_mark(text) lets the harness put call boundaries into the same log.
 * FSREC_CRASH_AT=n makes the process _exit(137) right before the n-th recorded mutation
 * (real kill points, used to cross-check the offline reconstruction).
 *
 * build: gcc -O2 -shared -fPIC -o fsrec.so fsrec.c -ldl -lpthread
 */
#define _GNU_SOURCE
#include <dlfcn.h>
#include <errno.h>
#include <fcntl.h>
#include <limits.h>
#include <pthread.h>
#include <stdarg.h>
#include <stdio.h>
#include <stdlib.h>
#include <string.h>
#include <sys/stat.h>
#include <sys/types.h>
#include <sys/uio.h>
#include <unistd.h>

static pthread_mutex_t mu = PTHREAD_MUTEX_INITIALIZER;
static int log_fd = -1;
static char watch[PATH_MAX];
static size_t watch_len = 0;
static long op_no = 0;
static long crash_at = -1;
static int inited = 0;
static __thread int busy = 0;

static ssize_t (*real_write)(int, const void *, size_t);
static ssize_t (*real_pwrite)(int, const void *, size_t, off_t);
static ssize_t (*real_pwrite64)(int, const void *, size_t, off64_t);
static ssize_t (*real_writev)(int, const struct iovec *, int);
static int (*real_ftruncate)(int, off_t);
static int (*real_ftruncate64)(int, off64_t);
static int (*real_fsync)(int);
static int (*real_fdatasync)(int);
static int (*real_rename)(const char *, const char *);
static int (*real_renameat)(int, const char *, int, const char *);
static int (*real_renameat2)(int, const char *, int, const char *, unsigned int);
static int (*real_unlink)(const char *);
static int (*real_unlinkat)(int, const char *, int);
static ssize_t (*real_copy_file_range)(int, off64_t *, int, off64_t *, size_t, unsigned int);
static int (*real_open)(const char *, int, ...);
static int (*real_open64)(const char *, int, ...);
static int (*real_openat)(int, const char *, int, ...);
static int (*real_openat64)(int, const char *, int, ...);
static int (*real_flock)(int, int);
static int (*real_fallocate)(int, int, off_t, off_t);
static int (*real_posix_fallocate)(int, off_t, off_t);

static void init(void) {
    if (inited) return;
    inited = 1;
    real_write = dlsym(RTLD_NEXT, "write");
    real_pwrite = dlsym(RTLD_NEXT, "pwrite");
    real_pwrite64 = dlsym(RTLD_NEXT, "pwrite64");
    real_writev = dlsym(RTLD_NEXT, "writev");
    real_ftruncate = dlsym(RTLD_NEXT, "ftruncate");
    real_ftruncate64 = dlsym(RTLD_NEXT, "ftruncate64");
    real_fsync = dlsym(RTLD_NEXT, "fsync");
    real_fdatasync = dlsym(RTLD_NEXT, "fdatasync");
    real_rename = dlsym(RTLD_NEXT, "rename");
    real_renameat = dlsym(RTLD_NEXT, "renameat");
    real_renameat2 = dlsym(RTLD_NEXT, "renameat2");
    real_unlink = dlsym(RTLD_NEXT, "unlink");
    real_unlinkat = dlsym(RTLD_NEXT, "unlinkat");
    real_copy_file_range = dlsym(RTLD_NEXT, "copy_file_range");
    real_open = dlsym(RTLD_NEXT, "open");
    real_open64 = dlsym(RTLD_NEXT, "open64");
    real_openat = dlsym(RTLD_NEXT, "openat");
    real_openat64 = dlsym(RTLD_NEXT, "openat64");
    real_flock = dlsym(RTLD_NEXT, "flock");
    real_fallocate = dlsym(RTLD_NEXT, "fallocate");
    real_posix_fallocate = dlsym(RTLD_NEXT, "posix_fallocate");
    const char *d = getenv("FSREC_DIR");
    const char *l = getenv("FSREC_LOG");
    const char *c = getenv("FSREC_CRASH_AT");
    if (d && l) {
        if (!realpath(d, watch)) strncpy(watch, d, sizeof(watch) - 1);
        watch_len = strlen(watch);
        log_fd = real_open(l, O_WRONLY | O_CREAT | O_APPEND | O_CLOEXEC, 0644);
    }
    if (c) crash_at = atol(c);
}

/* path of an fd if it lies under the watched directory, else 0 */
static int fd_path(int fd, char *out, size_t n) {
    if (log_fd < 0 || fd == log_fd) return 0;
    char link[64];
    snprintf(link, sizeof link, "/proc/self/fd/%d", fd);
    ssize_t k = readlink(link, out, n - 1);
    if (k <= 0) return 0;
    out[k] = 0;
    if (strncmp(out, watch, watch_len) != 0 || (out[watch_len] != '/' && out[watch_len] != 0)) return 0;
    return 1;
}

static int abs_path(int dirfd, const char *p, char *out, size_t n) {
    if (log_fd < 0 || !p) return 0;
    char tmp[PATH_MAX];
    if (p[0] == '/') {
        strncpy(tmp, p, sizeof tmp - 1);
        tmp[sizeof tmp - 1] = 0;
    } else if (dirfd == AT_FDCWD) {
        if (!getcwd(tmp, sizeof tmp)) return 0;
        strncat(tmp, "/", sizeof tmp - strlen(tmp) - 1);
        strncat(tmp, p, sizeof tmp - strlen(tmp) - 1);
    } else {
        char link[64];
        snprintf(link, sizeof link, "/proc/self/fd/%d", dirfd);
        ssize_t k = readlink(link, tmp, sizeof tmp - 1);
        if (k <= 0) return 0;
        tmp[k] = 0;
        strncat(tmp, "/", sizeof tmp - strlen(tmp) - 1);
        strncat(tmp, p, sizeof tmp - strlen(tmp) - 1);
    }
    /* normalise the directory part only (the last component may not exist) */
    char *slash = strrchr(tmp, '/');
    if (!slash) return 0;
    char dir[PATH_MAX], base[NAME_MAX + 1];
    size_t dl = (size_t)(slash - tmp);
    if (dl == 0) dl = 1;
    memcpy(dir, tmp, dl);
    dir[dl] = 0;
    strncpy(base, slash + 1, sizeof base - 1);
    base[sizeof base - 1] = 0;
    char rdir[PATH_MAX];
    if (!realpath(dir, rdir)) return 0;
    snprintf(out, n, "%s/%s", rdir, base);
    if (strncmp(out, watch, watch_len) != 0 || out[watch_len] != '/') return 0;
    return 1;
}

static unsigned long ino_of_fd(int fd) {
    struct stat st;
    if (fstat(fd, &st) != 0) return 0;
    return (unsigned long)st.st_ino;
}
static unsigned long ino_of_path(const char *p) {
    struct stat st;
    if (lstat(p, &st) != 0) return 0;
    return (unsigned long)st.st_ino;
}

static void emit(const char *line, size_t n) {
    size_t off = 0;
    while (off < n) {
        ssize_t k = real_write(log_fd, line + off, n - off);
        if (k <= 0) break;
        off += (size_t)k;
    }
}

/* called with mu held, BEFORE the mutation is performed */
static void pre_op(void) {
    op_no++;
    if (crash_at >= 0 && op_no == crash_at) _exit(137);
}

static void log_simple(const char *op, const char *path, unsigned long ino, long long a, long long b) {
    char buf[PATH_MAX + 256];
    int n = snprintf(buf, sizeof buf, "{\"n\":%ld,\"op\":\"%s\",\"name\":\"%s\",\"ino\":%lu,\"a\":%lld,\"b\":%lld}\n", op_no, op,
                     path + watch_len + (path[watch_len] == '/' ? 1 : 0), ino, a, b);
    emit(buf, (size_t)n);
}

static void log_data(const char *path, unsigned long ino, long long off, const unsigned char *data, size_t len) {
    static const char hex[] = "0123456789abcdef";
    size_t cap = len * 2 + PATH_MAX + 256;
    char *buf = malloc(cap);
    if (!buf) return;
    int n = snprintf(buf, cap, "{\"n\":%ld,\"op\":\"write\",\"name\":\"%s\",\"ino\":%lu,\"a\":%lld,\"b\":%zu,\"data\":\"", op_no,
                     path + watch_len + (path[watch_len] == '/' ? 1 : 0), ino, off, len);
    char *p = buf + n;
    for (size_t i = 0; i < len; i++) {
        *p++ = hex[data[i] >> 4];
        *p++ = hex[data[i] & 15];
    }
    *p++ = '"';
    *p++ = '}';
    *p++ = '\n';
    emit(buf, (size_t)(p - buf));
    free(buf);
}

void fsrec_mark(const char *text) {
    init();
    if (log_fd < 0) return;
    pthread_mutex_lock(&mu);
    char buf[4096];
    int n = snprintf(buf, sizeof buf, "{\"n\":%ld,\"op\":\"mark\",\"text\":\"%s\"}\n", op_no, text);
    emit(buf, (size_t)n);
    pthread_mutex_unlock(&mu);
}

#define ENTER() init(); int watched_ = 0; char path_[PATH_MAX]; (void)path_
#define GUARD(fd) (!busy && fd_path((fd), path_, sizeof path_))

ssize_t write(int fd, const void *buf, size_t count) {
    ENTER();
    if (GUARD(fd)) {
        busy = 1;
        pthread_mutex_lock(&mu);
        pre_op();
        off_t off = lseek(fd, 0, SEEK_CUR);
        int fl = fcntl(fd, F_GETFL);
        if (fl >= 0 && (fl & O_APPEND)) {
            struct stat st;
            if (fstat(fd, &st) == 0) off = st.st_size;
        }
        ssize_t r = real_write(fd, buf, count);
        if (r > 0) log_data(path_, ino_of_fd(fd), (long long)off, buf, (size_t)r);
        pthread_mutex_unlock(&mu);
        busy = 0;
        return r;
    }
    (void)watched_;
    return real_write(fd, buf, count);
}

ssize_t writev(int fd, const struct iovec *iov, int iovcnt) {
    ENTER();
    if (GUARD(fd)) {
        busy = 1;
        pthread_mutex_lock(&mu);
        pre_op();
        off_t off = lseek(fd, 0, SEEK_CUR);
        ssize_t r = real_writev(fd, iov, iovcnt);
        if (r > 0) {
            unsigned char *tmp = malloc((size_t)r);
            if (tmp) {
                size_t done = 0;
                for (int i = 0; i < iovcnt && done < (size_t)r; i++) {
                    size_t k = iov[i].iov_len;
                    if (k > (size_t)r - done) k = (size_t)r - done;
                    memcpy(tmp + done, iov[i].iov_base, k);
                    done += k;
                }
                log_data(path_, ino_of_fd(fd), (long long)off, tmp, (size_t)r);
                free(tmp);
            }
        }
        pthread_mutex_unlock(&mu);
        busy = 0;
        return r;
    }
    (void)watched_;
    return real_writev(fd, iov, iovcnt);
}

static ssize_t do_pwrite(int fd, const void *buf, size_t count, off64_t off, int is64) {
    ENTER();
    if (GUARD(fd)) {
        busy = 1;
        pthread_mutex_lock(&mu);
        pre_op();
        ssize_t r = is64 ? real_pwrite64(fd, buf, count, off) : real_pwrite(fd, buf, count, (off_t)off);
        if (r > 0) log_data(path_, ino_of_fd(fd), (long long)off, buf, (size_t)r);
        pthread_mutex_unlock(&mu);
        busy = 0;
        return r;
    }
    (void)watched_;
    return is64 ? real_pwrite64(fd, buf, count, off) : real_pwrite(fd, buf, count, (off_t)off);
}
ssize_t pwrite(int fd, const void *buf, size_t count, off_t off) { return do_pwrite(fd, buf, count, off, 0); }
ssize_t pwrite64(int fd, const void *buf, size_t count, off64_t off) { return do_pwrite(fd, buf, count, off, 1); }

static int do_trunc(int fd, off64_t len, int is64) {
    ENTER();
    if (GUARD(fd)) {
        busy = 1;
        pthread_mutex_lock(&mu);
        pre_op();
        int r = is64 ? real_ftruncate64(fd, len) : real_ftruncate(fd, (off_t)len);
        if (r == 0) log_simple("trunc", path_, ino_of_fd(fd), (long long)len, 0);
        pthread_mutex_unlock(&mu);
        busy = 0;
        return r;
    }
    (void)watched_;
    return is64 ? real_ftruncate64(fd, len) : real_ftruncate(fd, (off_t)len);
}
int ftruncate(int fd, off_t len) { return do_trunc(fd, len, 0); }
int ftruncate64(int fd, off64_t len) { return do_trunc(fd, len, 1); }

int fallocate(int fd, int mode, off_t offset, off_t len) {
    ENTER();
    if (GUARD(fd)) {
        busy = 1;
        pthread_mutex_lock(&mu);
        pre_op();
        int r = real_fallocate(fd, mode, offset, len);
        if (r == 0) {
            struct stat st;
            if (fstat(fd, &st) == 0) log_simple("trunc", path_, ino_of_fd(fd), (long long)st.st_size, 1);
        }
        pthread_mutex_unlock(&mu);
        busy = 0;
        return r;
    }
    (void)watched_;
    return real_fallocate(fd, mode, offset, len);
}
int posix_fallocate(int fd, off_t offset, off_t len) {
    ENTER();
    if (GUARD(fd)) {
        busy = 1;
        pthread_mutex_lock(&mu);
        pre_op();
        int r = real_posix_fallocate(fd, offset, len);
        if (r == 0) {
            struct stat st;
            if (fstat(fd, &st) == 0) log_simple("trunc", path_, ino_of_fd(fd), (long long)st.st_size, 1);
        }
        pthread_mutex_unlock(&mu);
        busy = 0;
        return r;
    }
    (void)watched_;
    return real_posix_fallocate(fd, offset, len);
}

static int do_sync(int fd, int data_only) {
    ENTER();
    /* a directory fd under (or equal to) the watched dir is recorded too */
    if (GUARD(fd)) {
        busy = 1;
        pthread_mutex_lock(&mu);
        pre_op();
        int r = data_only ? real_fdatasync(fd) : real_fsync(fd);
        struct stat st;
        int isdir = (fstat(fd, &st) == 0 && S_ISDIR(st.st_mode));
        log_simple(isdir ? "dirsync" : "fsync", path_, ino_of_fd(fd), data_only, 0);
        pthread_mutex_unlock(&mu);
        busy = 0;
        return r;
    }
    (void)watched_;
    return data_only ? real_fdatasync(fd) : real_fsync(fd);
}
int fsync(int fd) { return do_sync(fd, 0); }
int fdatasync(int fd) { return do_sync(fd, 1); }

static int do_rename(int ofd, const char *o, int nfd, const char *n, unsigned int flags, int kind) {
    ENTER();
    char po[PATH_MAX], pn[PATH_MAX];
    if (!busy && abs_path(ofd, o, po, sizeof po) && abs_path(nfd, n, pn, sizeof pn)) {
        busy = 1;
        pthread_mutex_lock(&mu);
        pre_op();
        unsigned long ino = ino_of_path(po);
        int r = kind == 0 ? real_rename(o, n) : kind == 1 ? real_renameat(ofd, o, nfd, n) : real_renameat2(ofd, o, nfd, n, flags);
        if (r == 0) {
            char buf[2 * PATH_MAX + 256];
            int k = snprintf(buf, sizeof buf, "{\"n\":%ld,\"op\":\"rename\",\"name\":\"%s\",\"to\":\"%s\",\"ino\":%lu}\n", op_no,
                             po + watch_len + 1, pn + watch_len + 1, ino);
            emit(buf, (size_t)k);
        }
        pthread_mutex_unlock(&mu);
        busy = 0;
        return r;
    }
    (void)watched_;
    return kind == 0 ? real_rename(o, n) : kind == 1 ? real_renameat(ofd, o, nfd, n) : real_renameat2(ofd, o, nfd, n, flags);
}
int rename(const char *o, const char *n) { return do_rename(AT_FDCWD, o, AT_FDCWD, n, 0, 0); }
int renameat(int ofd, const char *o, int nfd, const char *n) { return do_rename(ofd, o, nfd, n, 0, 1); }
int renameat2(int ofd, const char *o, int nfd, const char *n, unsigned int flags) { return do_rename(ofd, o, nfd, n, flags, 2); }

static int do_unlink(int dfd, const char *p, int flags, int kind) {
    ENTER();
    char pp[PATH_MAX];
    if (!busy && abs_path(dfd, p, pp, sizeof pp)) {
        busy = 1;
        pthread_mutex_lock(&mu);
        pre_op();
        unsigned long ino = ino_of_path(pp);
        int r = kind == 0 ? real_unlink(p) : real_unlinkat(dfd, p, flags);
        if (r == 0) log_simple("unlink", pp, ino, 0, 0);
        pthread_mutex_unlock(&mu);
        busy = 0;
        return r;
    }
    (void)watched_;
    return kind == 0 ? real_unlink(p) : real_unlinkat(dfd, p, flags);
}
int unlink(const char *p) { return do_unlink(AT_FDCWD, p, 0, 0); }
int unlinkat(int dfd, const char *p, int flags) { return do_unlink(dfd, p, flags, 1); }

ssize_t copy_file_range(int fd_in, off64_t *off_in, int fd_out, off64_t *off_out, size_t len, unsigned int flags) {
    ENTER();
    if (GUARD(fd_out)) {
        busy = 1;
        pthread_mutex_lock(&mu);
        pre_op();
        off64_t o = off_out ? *off_out : lseek64(fd_out, 0, SEEK_CUR);
        ssize_t r = real_copy_file_range(fd_in, off_in, fd_out, off_out, len, flags);
        if (r > 0) {
            unsigned char *tmp = malloc((size_t)r);
            if (tmp) {
                ssize_t got = pread64(fd_out, tmp, (size_t)r, o);
                if (got == r) log_data(path_, ino_of_fd(fd_out), (long long)o, tmp, (size_t)r);
                free(tmp);
            }
        }
        pthread_mutex_unlock(&mu);
        busy = 0;
        return r;
    }
    (void)watched_;
    return real_copy_file_range(fd_in, off_in, fd_out, off_out, len, flags);
}

static int do_open(int dfd, const char *p, int flags, mode_t mode, int kind) {
    ENTER();
    char pp[PATH_MAX];
    int interesting = (flags & (O_CREAT | O_TRUNC)) != 0;
    if (!busy && interesting && abs_path(dfd, p, pp, sizeof pp)) {
        busy = 1;
        pthread_mutex_lock(&mu);
        struct stat st;
        int existed = (lstat(pp, &st) == 0);
        long long old_size = existed ? (long long)st.st_size : -1;
        int will_mutate = (!existed && (flags & O_CREAT)) || (existed && (flags & O_TRUNC) && old_size > 0);
        if (will_mutate) pre_op();
        int fd = kind == 0 ? real_open(p, flags, mode) : kind == 1 ? real_open64(p, flags, mode)
               : kind == 2 ? real_openat(dfd, p, flags, mode) : real_openat64(dfd, p, flags, mode);
        if (fd >= 0 && will_mutate) {
            if (!existed) log_simple("create", pp, ino_of_fd(fd), 0, 0);
            else log_simple("trunc", pp, ino_of_fd(fd), 0, 2);
        }
        pthread_mutex_unlock(&mu);
        busy = 0;
        return fd;
    }
    (void)watched_;
    return kind == 0 ? real_open(p, flags, mode) : kind == 1 ? real_open64(p, flags, mode)
         : kind == 2 ? real_openat(dfd, p, flags, mode) : real_openat64(dfd, p, flags, mode);
}
int open(const char *p, int flags, ...) {
    mode_t m = 0;
    if (flags & (O_CREAT | O_TMPFILE)) { va_list ap; va_start(ap, flags); m = va_arg(ap, mode_t); va_end(ap); }
    return do_open(AT_FDCWD, p, flags, m, 0);
}
int open64(const char *p, int flags, ...) {
    mode_t m = 0;
    if (flags & (O_CREAT | O_TMPFILE)) { va_list ap; va_start(ap, flags); m = va_arg(ap, mode_t); va_end(ap); }
    return do_open(AT_FDCWD, p, flags, m, 1);
}
int openat(int dfd, const char *p, int flags, ...) {
    mode_t m = 0;
    if (flags & (O_CREAT | O_TMPFILE)) { va_list ap; va_start(ap, flags); m = va_arg(ap, mode_t); va_end(ap); }
    return do_open(dfd, p, flags, m, 2);
}
int openat64(int dfd, const char *p, int flags, ...) {
    mode_t m = 0;
    if (flags & (O_CREAT | O_TMPFILE)) { va_list ap; va_start(ap, flags); m = va_arg(ap, mode_t); va_end(ap); }
    return do_open(dfd, p, flags, m, 3);
}

int flock(int fd, int operation) {
    ENTER();
    int r = real_flock(fd, operation);
    if (GUARD(fd)) {
        busy = 1;
        pthread_mutex_lock(&mu);
        log_simple("flock", path_, ino_of_fd(fd), operation, r);
        pthread_mutex_unlock(&mu);
        busy = 0;
    }
    (void)watched_;
    return r;
}
