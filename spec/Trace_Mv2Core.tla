--------------------------- MODULE Trace_Mv2Core ---------------------------
(* impl -> spec: validates ND-JSON recordings of real `Memvid` histories     *)
(* (harness `mvh core-run`) against Mv2Core.  One line per public call with  *)
(* its arguments, its result and the projected abstract state; lengths of    *)
(* the log records a call wrote are read from the logged log chain, and the  *)
(* optional Lex-batch record of a commit is inferred from it.                *)
EXTENDS Mv2Core, Json, IOUtils

Rec == ndJsonDeserialize(IOEnv.TRACE)

CONSTANT Debug    \* TRUE: report every mismatching observation and keep going (diagnosis run)

VARIABLES l,
          prev,    \* what the memory logically was before the last call (for crash events: the in-flight call is the last one)
          qattr,   \* payload id -> what the document satisfies (query atoms, ACL metadata), registered by put events
          qhist,   \* query id -> the table it was first answered on and the answer (C28: same answers after reopen / doctor)
          cmem,    \* explicit memory cards in the handle's track (put_memory_card)
          cdisk,   \* explicit memory cards persisted by the last commit
          mmem,    \* the logic mesh in the handle (add_mesh_node / add_mesh_edge)
          mdisk,   \* the logic mesh persisted by the last commit
          sides    \* files a test planted next to the memory (C19)
tvars == <<vars, l, prev, qattr, qhist, cmem, cdisk, mmem, mdisk, sides>>
\* C19: the sidecars create / open / open_read_only must refuse to run next to
Forbidden(s) == s \in {"m.mv2-wal", "m.mv2-shm", "m.mv2-lock", "m.mv2-journal", ".m.mv2.wal", ".m.mv2.shm", ".m.mv2.lock", ".m.mv2.journal"}
Blocked == \E s \in sides : Forbidden(s)
MT == INSTANCE MeshTrack WITH MaxOps <- 0, mesh <- 0, n <- 0
CT == INSTANCE CardsTrack WITH MaxCards <- 0, Times <- {}, c <- 0
MQ == INSTANCE Mv2Query
Snap == [exists |-> exists, frames |-> frames, pend |-> pend, tseq |-> ticket.seq, tdseq |-> ticket.d.seq]

\* a checked observation: in a diagnosis run a failing one is reported and masked
Chk(name, cond) == IF cond THEN TRUE ELSE (Debug /\ PrintT(<<"MISMATCH", l, name>>))
\* drift from a transcription where the property leaves the choice open: reported, never a violation
Note(name, cond) == IF cond THEN TRUE ELSE PrintT(<<"DRIFT", l, name>>)

Ev == Rec[l]
Has(r, f) == f \in DOMAIN r

(* ---------------------- reading the logged log chain --------------------- *)
RECURSIVE NewLensFrom(_, _)
NewLensFrom(chain, s) ==       \* payload lengths of chain records with sequence > s, in order
  IF chain = <<>> THEN <<>>
  ELSE IF Head(chain)[1] > s THEN <<Head(chain)[2]>> \o NewLensFrom(Tail(chain), s)
       ELSE NewLensFrom(Tail(chain), s)
NewLens == IF Has(Ev.obs.file, "chain") THEN NewLensFrom(Ev.obs.file.chain, wseq) ELSE <<>>

First(s, n) == IF n >= Len(s) THEN s ELSE SubSeq(s, 1, n)
NthOrZero(s, n) == IF n <= Len(s) THEN s[n] ELSE 0

(* ------------------------------ observations ---------------------------- *)
\* canonical payload the read path reports: a chunked document is the concatenation of its
\* active chunk frames and fails (-3) when some of them are no longer active
ShownPay(fs, i) ==
  LET f == fs[i] IN
  IF f.role = "doc" /\ f.cc > 0      \* no extent of its own: readable as long as all its chunks are active
    THEN IF Cardinality({j \in 1..Len(fs) : fs[j].role = "chunk" /\ fs[j].parent = i - 1 /\ fs[j].st = "active"}) = f.cc
           THEN f.pay ELSE -3
    ELSE IF f.gone THEN -3 ELSE f.pay

FrameMatches(f, o) ==
  /\ Chk("frame.uri", f.uri = o.uri) /\ Chk("frame.st", f.st = o.st) /\ Chk("frame.role", f.role = o.role)
  /\ Chk("frame.parent", f.parent = o.parent)
  /\ Chk("frame.sup", f.sup = o.sup) /\ Chk("frame.supby", f.supby = o.supby) /\ Chk("frame.ts", f.ts = o.ts)
  /\ Chk("frame.emb", (IF f.st = "active" THEN f.emb ELSE 0) = o.emb)   \* only active frames stay in the vector index (C14)
  /\ Chk("frame.ci", f.ci = o.ci) /\ Chk("frame.cc", f.cc = o.cc)
  /\ Chk("frame.meta", \A fld \in MetaFields : f.meta[fld] # 0 => (Has(o, "meta") /\ f.meta[fld] = o.meta[fld]))   \* C08: inherited fields
  /\ Chk("frame.blob", f.role = "doc" /\ f.cc <= 0 /\ o.len > 0 => o.blob_same)     \* blob reader streams the same bytes (C07)

ObservedFile(o) ==
  /\ Chk("file.present", o.file.present /\ ~o.file.scan_err)
  /\ Chk("file.wal_size", wR' = o.file.wal_size)
  /\ Chk("file.wal_seq", wcseq' = o.file.wal_seq)
  /\ Chk("file.chain_seq", o.file.chain # <<>> => wseq' = o.file.chain[Len(o.file.chain)][1])

ObservedHandle(o) ==
  IF ~o.open THEN Chk("handle", hdl' = "none")
  ELSE /\ Chk("handle", hdl' = (IF o.ro THEN "ro" ELSE "rw"))
       /\ Chk("count", Len(Visible') = o.count)
       /\ Chk("nfid", hdl' = "rw" => NextFrameId' = o.nfid)
       /\ (o.full /\ Len(Visible') = o.count =>
             \A i \in 1..o.count : /\ FrameMatches(Visible'[i], o.frames[i])
                                    /\ Chk("frame.pay", ShownPay(Visible', i) = o.frames[i].pay))
       /\ (o.full /\ Has(o, "payload_end") /\ o.payload_end > Capacity' =>
             IF Defects \cap {"D24_pending_ignored", "D24_index_interleaved"} # {}
               THEN PrintT(<<"DEVIATION", l, "D24_payload_end_beyond_capacity">>)
               ELSE Chk("payload_end", FALSE))
       /\ Chk("ticket", ticket'.seq = o.ticket.seq /\ ticket'.cap = o.ticket.cap)
       /\ Chk("ticket.verified", Has(o.ticket, "verified") => o.ticket.verified = ticket'.ver)      \* C25: only an authentic ticket marks the memory verified
       /\ Chk("ticket.binding", Has(o, "bound") => o.bound = ticket'.mem)
       /\ Chk("capacity", o.stats.cap = Capacity')
       /\ Chk("stats.count", o.stats.frame_count = o.count)
       /\ Chk("frame.blob", (o.full /\ Has(o, "blob_interleaved_ok")) => o.blob_interleaved_ok)   \* C07: concurrent blob readers
       /\ Chk("ro.file", o.ro => o.ro_unchanged)       \* C18: a read-only handle never changes the file

\* what the test has planted next to the memory once this event is done
SidesNow == IF Ev.ev = "reset" THEN {}
            ELSE IF Ev.ev = "sidecar" /\ Ev.res.ok THEN sides \cup {Ev.x.sidecar}
            ELSE IF Ev.ev = "rm_sidecars" THEN {}
            ELSE sides
SidesNext == SidesNow

Observed(o) ==
  IF exists' = "broken"
    THEN PrintT(<<"DEVIATION", l, "D01_commit_growth">>)      \* reported; observations after the damage are not judged
    ELSE /\ (exists' # "no" => ObservedFile(o)) /\ ObservedHandle(o)
         \* C19: nothing but the memory (and what the test itself planted) is in the directory after the call
         /\ Chk("dir", LET want == (IF exists' # "no" THEN {"m.mv2"} ELSE {}) \cup SidesNow IN
                        {o.dir[k] : k \in 1..Len(o.dir)} = want /\ Len(o.dir) = Cardinality(want))

PayEnd(o) == IF Has(o, "payload_end") THEN o.payload_end ELSE 0

IsEvent(e) == l <= Len(Rec) /\ Ev.ev = e /\ l' = l + 1 /\ (exists # "broken" \/ e = "reset")
ResOk == Ev.res.ok
ResErr(name) == ~Ev.res.ok /\ Has(Ev.res, "err") /\ Ev.res.err = name
Matches == Chk("result", IF last'.res = "ok" THEN ResOk ELSE ResErr(last'.res))

(* --------------------------------- events -------------------------------- *)
TraceInit == l = 1 /\ Init /\ prev = [exists |-> "no", frames |-> <<>>, pend |-> <<>>, tseq |-> 0, tdseq |-> 0]
             /\ qattr = EmptyMap /\ qhist = EmptyMap /\ cmem = <<>> /\ cdisk = <<>> /\ mmem = MT!Empty /\ mdisk = MT!Empty /\ sides = {}

TReset == /\ IsEvent("reset")
          /\ exists' = "no" /\ frames' = <<>> /\ pend' = <<>>
          /\ wR' = R0 /\ wh' = 0 /\ wpb' = 0 /\ wapc' = 0 /\ wseq' = 0 /\ wcseq' = 0
          /\ hdl' = "none" /\ snap' = <<>> /\ dirty' = FALSE /\ pins' = 0 /\ noAuto' = FALSE
          /\ ticket' = WithD(Tk(0, 0, 0, FALSE), Tk(0, 0, 0, FALSE)) /\ cpe' = 0 /\ acked' = <<>>
          /\ last' = Obs("init", "ok", 0)

TCreate == IsEvent("create") /\ ~Blocked /\ Create /\ Matches /\ Observed(Ev.obs)
\* C19: next to a forbidden sidecar create / open / open_read_only refuse to run and change nothing
TRefused == /\ l <= Len(Rec) /\ Ev.ev \in {"create", "open", "open_ro"} /\ l' = l + 1 /\ exists # "broken" /\ Blocked /\ hdl = "none"
            /\ Reject(Ev.ev, "AuxiliaryFileDetected") /\ Matches /\ Observed(Ev.obs)
TSidecar == /\ l <= Len(Rec) /\ Ev.ev \in {"sidecar", "rm_sidecars"} /\ l' = l + 1 /\ exists # "broken" /\ ResOk
            /\ last' = Obs(Ev.ev, "ok", 0)
            /\ UNCHANGED <<exists, frames, pend, wal, hdl, snap, dirty, pins, noAuto, ticket, cpe, acked>>
            /\ Observed(Ev.obs)


TCommit == /\ IsEvent("commit")
           /\ Commit(NthOrZero(NewLens, 1), PayEnd(Ev.obs))
           /\ Matches /\ Observed(Ev.obs)

TOpen == /\ IsEvent("open") /\ ~Blocked
         /\ OpenRW(NthOrZero(NewLens, 1), PayEnd(Ev.obs))
         /\ Matches /\ Observed(Ev.obs)

TOpenRO == IsEvent("open_ro") /\ ~Blocked /\ OpenRO /\ Matches /\ Observed(Ev.obs)

TClose == /\ IsEvent("close")
          /\ Close(NthOrZero(NewLens, 1), cpe)
          /\ Matches /\ Observed(Ev.obs)
          /\ Chk("ro.file", (Has(Ev, "x") /\ Has(Ev.x, "ro_closed_unchanged")) => Ev.x.ro_closed_unchanged)   \* C18: also when the read-only handle is dropped

TAbandon == IsEvent("abandon") /\ Abandon /\ Observed(Ev.obs)
\* the closed file gets the lock-owner metadata an older release kept in reserved header bytes: nothing logical changes
TLegacy == /\ IsEvent("legacy_lock") /\ hdl = "none" /\ ResOk
           /\ last' = Obs("legacy_lock", "ok", 0)
           /\ UNCHANGED <<exists, frames, pend, wal, hdl, snap, dirty, pins, noAuto, ticket, cpe, acked>>
           /\ Observed(Ev.obs)

Emb(a) == IF Has(a, "emb") THEN a.emb ELSE 0
MetaOf(a) == [fld \in MetaFields |-> IF Has(a, "meta") /\ Has(a.meta, fld) THEN a.meta[fld] ELSE 0]
CEmbs(a) == IF Has(a, "chunk_embs") THEN a.chunk_embs ELSE <<>>
Role(a) == IF Has(a, "role") THEN a.role ELSE "doc"
\* bytes the payload occupies in the file (computed by the harness: verbatim, or zstd for UTF-8): what capacity charges
SLen(a) == IF Has(Ev.x, "stored_len") THEN Ev.x.stored_len ELSE 0

TPut == /\ IsEvent("put")
        /\ LET a == Ev.args  n == Ev.x.nchunks  nl == NewLens IN
           IF ResOk
             THEN /\ Chk("capacity.accepted", ~Over(SLen(a)))            \* C24: a put that does not fit must be rejected
                  /\ PutDo(a.uri, Role(a), a.ts, a.pay * 1000, Emb(a), n, CEmbs(a), SLen(a),
                           First(nl, 1 + n), NthOrZero(nl, 2 + n), PayEnd(Ev.obs), MetaOf(a))
                  /\ last'.res = "ok" /\ Chk("put.seq", Ev.res.val = last'.val)
                  /\ Chk("put.nfid", Ev.nfid_before = Len(frames) + pins)   \* C06: next_frame_id() before the put
                  /\ (SLen(a) > 0 /\ cpe + PendingStored(pend) + SLen(a) > Capacity
                        => PrintT(<<"DEVIATION", l, "D24_pending_ignored">>))
             ELSE IF ResErr("CapacityExceeded")
               THEN /\ Chk("capacity.rejected", Over(SLen(a)))            \* ... and only such a put
                    /\ hdl = "rw" /\ Reject("put", "CapacityExceeded")
               ELSE /\ PutM(a.uri, Role(a), a.ts, a.pay * 1000, Emb(a), n, CEmbs(a), 0,
                            [i \in 1..(1 + n) |-> 1], 0, cpe, NoMeta)
                    /\ Matches
        /\ Observed(Ev.obs)

TUpdate == /\ IsEvent("update")
           /\ LET a == Ev.args  hp == Has(a, "pay")
                  n == IF Has(Ev.x, "nchunks") THEN Ev.x.nchunks ELSE 0  nl == NewLens IN
              IF ResOk
                THEN /\ UpdateM(a.frame, hp, IF hp THEN a.pay * 1000 ELSE 0, Emb(a), n, SLen(a),
                                First(nl, 1 + n), NthOrZero(nl, 2 + n), PayEnd(Ev.obs), MetaOf(a))
                     /\ last'.res = "ok" /\ Chk("put.seq", Ev.res.val = last'.val)
                     /\ (~hp /\ frames[a.frame + 1].cc > 0 /\ frames[a.frame + 1].role = "doc"
                           => PrintT(<<"DEVIATION", l, "D08_update_chunked_empty">>))
                ELSE /\ Update(a.frame, hp, IF hp THEN a.pay * 1000 ELSE 0, Emb(a), n, SLen(a),
                               [i \in 1..(1 + n) |-> 1], 0, cpe)
                     /\ Matches
           /\ Observed(Ev.obs)

TDelete == /\ IsEvent("delete")
           /\ LET nl == NewLens IN
              IF ResOk
                THEN /\ Delete(Ev.args.frame, NthOrZero(nl, 1), NthOrZero(nl, 2), PayEnd(Ev.obs))
                     /\ last'.res = "ok" /\ Chk("put.seq", Ev.res.val = last'.val)
                ELSE Delete(Ev.args.frame, 1, 0, cpe) /\ Matches
           /\ Observed(Ev.obs)

TVacuum == /\ IsEvent("vacuum")
           /\ LET nl == NewLens IN
              \* up to two Lex-batch records: the one of vacuum's leading commit, the one of its index rebuild
              \/ (Len(nl) = 0 /\ Vacuum(0, 0, PayEnd(Ev.obs)))
              \/ (Len(nl) = 1 /\ (Vacuum(nl[1], 0, PayEnd(Ev.obs)) \/ Vacuum(0, nl[1], PayEnd(Ev.obs))))
              \/ (Len(nl) >= 2 /\ Vacuum(nl[1], nl[2], PayEnd(Ev.obs)))
           /\ Matches /\ Observed(Ev.obs)

TTicket == /\ IsEvent("ticket")
           /\ ApplyTicket(Ev.args.seq, IF Has(Ev.args, "cap") THEN Ev.args.cap ELSE 0)
           /\ Matches /\ Observed(Ev.obs)

\* C25, signed tickets.  The harness signs the canonical payload with a key pair whose public half the crate is told to
\* trust (hook verif::set_ticket_pubkey) and then tampers as the scenario says; `authentic` = nothing was tampered with.
\* A rejected ticket may carry either error; it must change nothing (Reject + Observed).
TSignedTicket == /\ IsEvent("signed_ticket")
                 /\ ApplySigned(Ev.args.seq, IF Has(Ev.args, "cap") THEN Ev.args.cap ELSE 0, Ev.x.mem, Ev.x.authentic)
                 /\ Chk("ticket.signed", IF last'.res = "ok" THEN ResOk
                                          ELSE ~Ev.res.ok /\ Has(Ev.res, "err") /\ Ev.res.err \in {"TicketSignatureInvalid", "TicketSequence"})
                 /\ Observed(Ev.obs)
TBindOnly == IsEvent("bind_only") /\ BindOnly(Ev.args.mem) /\ Matches /\ Observed(Ev.obs)
TBind == /\ IsEvent("bind")
         /\ Bind(Ev.args.mem, Ev.args.seq, IF Has(Ev.args, "cap") THEN Ev.args.cap ELSE 0) /\ Matches /\ Observed(Ev.obs)
TUnbind == IsEvent("unbind") /\ Unbind /\ Matches /\ Observed(Ev.obs)

TBeginBatch == /\ IsEvent("begin_batch")
               /\ BeginBatchPre(Has(Ev.args, "no_auto") /\ Ev.args.no_auto, IF Has(Ev.args, "presize") THEN Ev.args.presize ELSE 0)
               /\ Matches /\ Observed(Ev.obs)
TEndBatch == IsEvent("end_batch") /\ EndBatch /\ Matches /\ Observed(Ev.obs)

TCommitSkip == IsEvent("commit_skip") /\ CommitSkip(PayEnd(Ev.obs)) /\ Matches /\ Observed(Ev.obs)
TFinalize == IsEvent("finalize") /\ Finalize(NthOrZero(NewLens, 1)) /\ Matches /\ Observed(Ev.obs)

\* reads: result predicted exactly from the visible frame table
TTimeline ==
  /\ IsEvent("timeline") /\ Read("timeline") /\ ResOk
  /\ LET a == Ev.args
         full == Timeline(Visible, IF Has(a, "since") THEN a.since ELSE 0, IF Has(a, "until") THEN a.until ELSE 0,
                          Has(a, "since"), Has(a, "until"))
         ord == IF Has(a, "reverse") /\ a.reverse THEN [i \in 1..Len(full) |-> full[Len(full) + 1 - i]] ELSE full
         lim == IF Has(a, "limit") /\ a.limit > 0 THEN First(ord, a.limit) ELSE ord
     IN Chk("timeline", /\ Len(Ev.res.val) = Len(lim)
                        /\ \A i \in 1..Len(lim) : Ev.res.val[i][1] = lim[i] /\ Ev.res.val[i][2] = Visible[lim[i] + 1].ts)
  /\ Observed(Ev.obs)

TByUri ==
  /\ IsEvent("by_uri") /\ Read("by_uri")
  /\ LET id == ByUri(Visible, Ev.args.uri) IN
       Chk("by_uri", IF id = NoFrame THEN ResErr("FrameNotFoundByUri")
                     ELSE ResOk /\ Ev.res.val.id = id /\ Ev.res.val.st = Visible[id + 1].st)
  /\ Observed(Ev.obs)

\* C14: vector search finds, for every embedding ever used, exactly the active frames carrying it
\* the sketch track's candidate list: a read; what it returns is compared between the two executions of a history (TwinOk)
TSketch == /\ IsEvent("sketch") /\ Read("sketch") /\ Chk("sketch.panic", ~Has(Ev.res, "panic")) /\ Observed(Ev.obs)

TVecSet ==
  /\ IsEvent("vecset") /\ Read("vecset")
  /\ LET anyEmb == \E i \in 1..Len(Visible) : Visible[i].st = "active" /\ Visible[i].emb > 0 IN
     IF ~ResOk THEN Chk("vecset", ~anyEmb /\ ResErr("VecNotEnabled"))      \* no vector index yet
     ELSE Chk("vecset", \A k \in 1..Len(Ev.res.val) :
                LET r == Ev.res.val[k]
                    want == {i - 1 : i \in {j \in 1..Len(Visible) : Visible[j].st = "active" /\ Visible[j].emb = r.emb}} IN
                {r.frames[q] : q \in 1..Len(r.frames)} = want)
  /\ Observed(Ev.obs)

\* verify (static, no handle open): must pass on anything the model calls healthy
TVerify == /\ IsEvent("verify")
           /\ UNCHANGED vars
           /\ Chk("verify", ResOk /\ (pend = <<>> => Ev.res.val = "Passed"))
           /\ ObservedFile(Ev.obs)

Flag(a, f) == Has(a, f) /\ a[f]
TDoctor == /\ IsEvent("doctor")
           /\ ResOk
           /\ LET vac == Flag(Ev.args, "vacuum")
                  reb == Flag(Ev.args, "time") \/ Flag(Ev.args, "lex") \/ Flag(Ev.args, "vec")
                  dry == Flag(Ev.args, "dry_run") IN
              /\ Chk("result", DoctorStatusAllowed(vac, reb, dry, Ev.res.val.status))
              /\ DoctorEffect(vac, reb, dry, Ev.res.val.status)
           /\ Chk("doctor.verify", ResOk /\ last'.val = "Healed" => Ev.res.val.verify = "Passed")   \* C21: leaves a file that verifies
           /\ ObservedFile(Ev.obs) /\ Chk("dir", Ev.obs.dir = <<"m.mv2">>)

\* deviation D01 damaged the file: nothing further in this run is predictable; the deviation is
\* reported (so that it is matched against the known findings) and the run is skipped
TBroken == /\ exists = "broken" /\ l <= Len(Rec) /\ Ev.ev # "reset" /\ l' = l + 1
           /\ UNCHANGED vars

(* ------------------------ crash events (disk engine) ---------------------- *)
\* A crash event follows the event of the call that was in flight when the process died / the power failed at
\* file operation `at`; it carries what the REAL recovery showed on the reconstructed directory.  The history
\* allows exactly two logical states: the one before that call and the one after it (DESIGN 5, stage 1).
FrameEq(f, o, shown) ==
  /\ f.uri = o.uri /\ f.st = o.st /\ f.role = o.role /\ f.parent = o.parent /\ f.sup = o.sup /\ f.supby = o.supby
  /\ f.ts = o.ts /\ (IF f.st = "active" THEN f.emb ELSE 0) = o.emb /\ f.ci = o.ci /\ f.cc = o.cc /\ shown = o.pay
TableEq(fs, o) ==
  /\ Has(o, "count") /\ Len(fs) = o.count /\ Has(o, "frames") /\ Len(o.frames) = o.count
  /\ \A i \in 1..o.count : FrameEq(fs[i], o.frames[i], ShownPay(fs, i))
Recover(s) == Apply(s.frames, s.pend)
CrashAllowed(o) == TableEq(Recover(prev), o) \/ TableEq(Recover(Snap), o)
Panicked(r) == Has(r, "panic")

TCrash ==
  /\ IsEvent("crash") /\ UNCHANGED <<vars, prev>>
  /\ LET e == Ev IN
     /\ Chk("crash.panic", ~Panicked(e.res) /\ ~Panicked(e.close) /\ ~Panicked(e.second.open) /\ ~Panicked(e.verify) /\ ~Panicked(e.timeline))
     /\ IF ~e.res.ok
          THEN Chk("crash.open", prev.exists = "no")      \* only a crash inside create may leave nothing to open
          ELSE /\ Chk("crash.frames", CrashAllowed(e.obs))
               /\ Chk("crash.second", e.second.open.ok /\ e.second_same)             \* C04: a second open changes no frame
               /\ Chk("crash.ticket", e.obs.ticket.seq \in {prev.tseq, ticket.seq, prev.tdseq, ticket.d.seq})
     /\ (Has(e, "doctor") =>
           LET d == e.doctor IN
           /\ Chk("crash.doctor.panic", ~Panicked(d.first) /\ ~Panicked(d.second) /\ ~Panicked(d.open) /\ ~Panicked(d.verify))
           /\ Chk("crash.doctor", prev.exists # "no" =>
                    /\ d.first.ok /\ d.open.ok
                    /\ (TableEq(Recover(prev), d.obs) \/ TableEq(Recover(Snap), d.obs))      \* C21: doctor keeps every acknowledged frame
                    /\ d.verify.ok /\ d.verify.val = "Passed"
                    /\ d.second.ok /\ d.second.val.status = "Clean"))
     /\ (Has(e, "ro") =>
           /\ Chk("crash.ro.panic", ~Panicked(e.ro.open) /\ ~Panicked(e.ro.verify))
           /\ Chk("crash.ro", e.ro.unchanged /\ (e.ro.open.ok => (TableEq(prev.frames, e.ro.obs) \/ TableEq(frames, e.ro.obs)
                                                                     \/ TableEq(Recover(prev), e.ro.obs) \/ TableEq(Recover(Snap), e.ro.obs)))))

\* C20: a corrupted copy of the committed, closed file (the history's final state).  Every frame read must return the
\* original or fail (pay -3 / -4 = read error); a table that differs in any other way was served silently.
FrameEqOrErr(f, o, shown) ==
  /\ f.uri = o.uri /\ f.st = o.st /\ f.role = o.role /\ f.parent = o.parent /\ f.sup = o.sup /\ f.supby = o.supby
  /\ f.ts = o.ts /\ f.ci = o.ci /\ f.cc = o.cc
  /\ (o.pay = shown \/ o.pay \in {-3, -4})
  /\ (o.emb = (IF f.st = "active" THEN f.emb ELSE 0) \/ o.emb = -3)
TableEqOrErr(fs, o) ==
  /\ Has(o, "count") /\ Len(fs) = o.count /\ Has(o, "frames") /\ Len(o.frames) = o.count
  /\ \A i \in 1..o.count : FrameEqOrErr(fs[i], o.frames[i], ShownPay(fs, i))
TCorrupt ==
  /\ IsEvent("corrupt") /\ UNCHANGED <<vars, prev>>
  /\ LET e == Ev  tab == Apply(frames, pend) IN
     /\ Chk("corrupt.panic", ~Panicked(e.res) /\ ~Panicked(e.close) /\ ~Panicked(e.second.open) /\ ~Panicked(e.verify) /\ ~Panicked(e.timeline)
                               /\ (Has(e, "doctor") => ~Panicked(e.doctor.first) /\ ~Panicked(e.doctor.open) /\ ~Panicked(e.doctor.verify))
                               /\ (Has(e, "ro") => ~Panicked(e.ro.open) /\ ~Panicked(e.ro.verify)))
     \* a re-sealed edit (checksums recomputed by the editor) is an adversarial file, not a corruption: C22 (no panic, no hang)
     \* applies to it, C20 (detected or served unchanged) does not - nothing in the file can tell it from a legitimate one
     /\ ((e.res.ok /\ ~e.resealed) => Chk("corrupt.served", TableEqOrErr(tab, e.obs)))
     /\ (Has(e, "ro") /\ e.ro.open.ok /\ ~e.resealed => Chk("corrupt.served.ro", TableEqOrErr(frames, e.ro.obs) \/ TableEqOrErr(tab, e.ro.obs)))
     \* verify(deep) of the untouched corrupted copy: Passed must imply that no read returns different data
     /\ (Has(e, "ro") /\ e.ro.verify.ok /\ e.ro.verify.val = "Passed" /\ e.ro.open.ok /\ ~e.resealed =>
            Chk("corrupt.verify", TableEqOrErr(frames, e.ro.obs) \/ TableEqOrErr(tab, e.ro.obs)))

TraceStep == \/ TReset \/ TCreate \/ TRefused \/ TSidecar \/ TCommit \/ TOpen \/ TOpenRO \/ TClose \/ TAbandon \/ TLegacy
             \/ TPut \/ TUpdate \/ TDelete \/ TVacuum \/ TTicket \/ TSignedTicket \/ TBindOnly \/ TBind \/ TUnbind \/ TBeginBatch \/ TEndBatch \/ TCommitSkip \/ TFinalize
             \/ TTimeline \/ TByUri \/ TVecSet \/ TSketch \/ TVerify \/ TDoctor
             \/ TBroken

(* ----------------------- query events (query engine) ----------------------- *)
SeqSet(sq) == {sq[i] : i \in 1..Len(sq)}
Max2(a, b) == IF a > b THEN a ELSE b
\* the table a read is answered from: a read-only handle sees the last commit, a writable one also its pending window
Tab == IF hdl = "ro" THEN snap ELSE Apply(frames, pend)
Committed == hdl = "ro" \/ pend = <<>>
AttrsOf(tab, f) == LET fr == tab[f + 1] IN
                   IF fr.pay \in DOMAIN qattr THEN qattr[fr.pay] ELSE [atoms |-> {}, acl |-> [shape |-> "missing"]]
QAttrOf(a) == [atoms |-> IF Has(a, "atoms") THEN SeqSet(a.atoms) ELSE {}, acl |-> IF Has(a, "acl") THEN a.acl ELSE [shape |-> "missing"]]
TabKey(tab) == [i \in 1..Len(tab) |-> <<tab[i].st, tab[i].pay, tab[i].emb>>]
Cut(a) == Has(a, "as_of_frame") \/ Has(a, "as_of_ts")
Enforce(a) == Has(a, "mode") /\ a.mode = "enforce"
\* a tenant id that is blank after normalisation (also a JSON-quoted blank) is no tenant
NeedTenant(a) == Enforce(a) /\ (~Has(a, "ctx") \/ ~Has(a.ctx, "tenant") \/ (Has(a.ctx, "blank") /\ a.ctx.blank))
Dev(nm) == PrintT(<<"DEVIATION", l, nm>>)

\* a hit sequence (<<frame, from, to>> each) with at most k hits of any one frame kept, order preserved
CapSlices(sq, k) ==
  LET idx == {i \in 1..Len(sq) : Cardinality({j \in 1..i : sq[j][1] = sq[i][1]}) <= k}
      nth(n) == CHOOSE i \in idx : Cardinality({j \in idx : j <= i}) = n IN
  [n \in 1..Cardinality(idx) |-> sq[nth(n)]]

\* the paged sequence `cat` against the capped one-request sequence: equal, except that the k-th (last admitted) slice of a
\* document may end earlier - compute_snippet_slices stops at the cap before merging the next nearby occurrence into it
CapLike(cat, capped, k) ==
  /\ Len(cat) = Len(capped)
  /\ \A i \in 1..Len(cat) :
        \/ cat[i] = capped[i]
        \/ /\ cat[i][1] = capped[i][1] /\ cat[i][2] = capped[i][2] /\ cat[i][3] < capped[i][3]
           /\ Cardinality({j \in 1..i : cat[j][1] = cat[i][1]}) = k

TSearch ==
  /\ IsEvent("search") /\ Read("search")
  /\ LET a == Ev.args
         tab == Tab
         r == MQ!QL!Parse(a.toks) IN
     IF ~ResOk
       THEN \* C12: Enforce without tenant is an error.  As built, a query whose lexical candidates are all rejected by
            \* the evaluator falls back to the legacy index and fails with LexNotEnabled when there is none: accepted as
            \* "no hits" (no listed property forbids it) unless a committed document does contain the single word asked for.
            IF ResErr("LexNotEnabled")
              THEN /\ Chk("search.recall", (Has(a, "single") /\ Committed /\ ~Cut(a) /\ ~Enforce(a) /\ ~Has(a, "uri")) =>
                        {i \in 0..(Len(tab) - 1) : tab[i + 1].st = "active" /\ a.single \in AttrsOf(tab, i).atoms} = {})
                   \* C28: "no hits" from this handle although another handle found some for the same query on the same table
                   /\ Chk("search.same", (Has(a, "qid") /\ a.qid \in DOMAIN qhist /\ qhist[a.qid].tab = TabKey(tab)) => qhist[a.qid].res = {})
              ELSE Chk("search.error", ResErr("InvalidQuery") /\ (NeedTenant(a) \/ ~r.ok))
       ELSE LET v == Ev.res.val
                hits == v.hits
                n == Len(hits)
                F(i) == hits[i].f
                FS == {hits[i].f : i \in 1..n} IN
         /\ Chk("search.enforce", ~NeedTenant(a))
         /\ Chk("search.topk", n <= Max2(a.top_k, 1))                                                          \* C10
         /\ Chk("search.rank", \A i \in 1..n : hits[i].rank = i)
         /\ Chk("search.active", \A i \in 1..n : F(i) < Len(tab) /\ tab[F(i) + 1].st = "active")              \* C08 / C10
         /\ Chk("search.sound", r.ok /\ \A i \in 1..n : F(i) < Len(tab) => MQ!QL!Eval(r.e, AttrsOf(tab, F(i)).atoms))   \* C10 / C28
         /\ Chk("search.text", \A i \in 1..n : hits[i].text_ok /\ hits[i].a < hits[i].b /\ hits[i].ca <= hits[i].a /\ hits[i].b <= hits[i].cb)
         /\ Chk("search.uri", Has(a, "uri") => \A i \in 1..n : F(i) < Len(tab) => tab[F(i) + 1].uri = a.uri)
         /\ Chk("search.asof", /\ (Has(a, "as_of_frame") => \A i \in 1..n : F(i) <= a.as_of_frame)               \* C11
                                /\ (Has(a, "as_of_ts") => \A i \in 1..n : F(i) < Len(tab) => tab[F(i) + 1].ts <= a.as_of_ts)
                                /\ (Cut(a) /\ Has(v, "base") => FS \subseteq SeqSet(v.base)))
         /\ Chk("search.acl", Enforce(a) /\ ~NeedTenant(a) => \A i \in 1..n : F(i) < Len(tab) => MQ!AclAllowed(AttrsOf(tab, F(i)).acl, a.ctx))   \* C12
         /\ Chk("search.audit", (Has(a, "ctx") /\ ~Enforce(a) /\ ~Cut(a) /\ Has(v, "base_seq") /\ a.top_k >= Len(v.base_seq))
                                   => [i \in 1..n |-> <<hits[i].f, hits[i].a, hits[i].b>>] = v.base_seq)
         \* C09: a single-word query finds every committed active document containing the word (when they fit in top_k)
         /\ (Has(a, "single") /\ Committed /\ ~Cut(a) /\ ~Enforce(a) /\ ~Has(a, "uri") =>
               LET M == {i \in 0..(Len(tab) - 1) : tab[i + 1].st = "active" /\ a.single \in AttrsOf(tab, i).atoms} IN
               (Cardinality(M) <= a.top_k /\ ~(M \subseteq FS)) =>
                   IF "D09_sketch_recall" \in Defects /\ ~(Has(a, "no_sketch") /\ a.no_sketch) THEN Dev("D09_sketch_recall")
                   \* as built, top_k counts snippet slices, not frames: documents that yield several slices fill the page and
                   \* push other matching frames to the next page (the response is full and names some frame more than once)
                   ELSE IF "D09_slices_crowd" \in Defects /\ n = a.top_k /\ Cardinality(FS) < n THEN Dev("D09_slices_crowd")
                   ELSE Chk("search.recall", FALSE))
         \* C16: the pages partition the result stream
         /\ (Has(v, "pages") =>
               LET cat == MQ!Concat(v.pages)
                   goodSeq == ~Has(v, "paging_err") /\ ~Has(v, "paging_runaway") /\ cat = v.oneshot
                   goodTot == \A i \in 1..Len(v.totals) : v.totals[i] = v.oneshot_total
                   \* as built a response holds at most top_k slices of one document, so with small pages the later slices of a
                   \* document that has more of them are never returned: the one-request sequence with every document capped
                   capped == CapSlices(v.oneshot, a.top_k)
                   capSeq == ~Has(v, "paging_err") /\ ~Has(v, "paging_runaway") /\ CapLike(cat, capped, a.top_k) IN
               \* the concatenated pages are the one-request sequence: no hit lost, repeated or moved
               /\ (IF goodSeq THEN TRUE
                   ELSE IF capSeq /\ "D16_slice_cap" \in Defects THEN Dev("D16_slice_cap")
                   \* as built the lexical engine fetches 4 * (top_k + cursor) candidates (at least 20) and re-ranks them by recency:
                   \* with more matching documents than the first page's window the pages are cut from differently ordered lists
                   ELSE IF "D16_candidate_window" \in Defects /\ Cardinality({v.oneshot[i][1] : i \in 1..Len(v.oneshot)}) > Max2(20, 4 * a.top_k)
                        THEN Dev("D16_candidate_window")
                   ELSE Chk("search.pages", FALSE))
               \* total_hits the same on every page (as built it is not: deviation D16_pagination)
               /\ (~goodTot => IF "D16_pagination" \in Defects THEN Dev("D16_pagination") ELSE Chk("search.pages", FALSE)))
         \* C28: the same query on the same table gives the same hits (as a set) whichever handle answers
         /\ Chk("search.same", (Has(a, "qid") /\ a.qid \in DOMAIN qhist /\ qhist[a.qid].tab = TabKey(tab)) =>
                                   /\ qhist[a.qid].res = FS
                                   \* when neither answer filled its page: the same hits (frame and range), each once
                                   /\ ((n < a.top_k /\ qhist[a.qid].n < a.top_k) =>
                                          qhist[a.qid].n = n /\ qhist[a.qid].hs = {<<hits[i].f, hits[i].a, hits[i].b>> : i \in 1..n}))
         \* a response names a (frame, range) once
         /\ Chk("search.distinct", \A i, j \in 1..n : (hits[i].f = hits[j].f /\ hits[i].a = hits[j].a /\ hits[i].b = hits[j].b) => i = j)
  /\ Observed(Ev.obs)

TVSearch ==
  /\ IsEvent("vsearch") /\ Read("vsearch")
  /\ LET a == Ev.args
         tab == Tab
         ids == {i \in 0..(Len(tab) - 1) : tab[i + 1].st = "active" /\ tab[i + 1].emb > 0}
         embOf == [i \in ids |-> tab[i + 1].emb]
         dim == IF Has(a, "dim") THEN a.dim ELSE 4
         wrong == Has(a, "stored_dim") /\ a.stored_dim # dim IN
     IF wrong THEN Chk("vsearch.dim", ~ResOk /\ ids # {} => ResErr("VecDimensionMismatch"))      \* C13: wrong dimension is rejected
     ELSE IF ~ResOk THEN Chk("vsearch.error", ids = {} /\ ResErr("VecNotEnabled"))
     ELSE /\ Chk("vsearch.exact", Committed => MQ!VecExact(Ev.res.val, embOf, a.emb, a.k, dim))
          /\ Chk("vsearch.same", (Has(a, "qid") /\ a.qid \in DOMAIN qhist /\ qhist[a.qid].tab = TabKey(tab))
                                   => qhist[a.qid].res = [i \in 1..Len(Ev.res.val) |-> Ev.res.val[i].d2])
  /\ Observed(Ev.obs)

\* the other retrieval paths (vector search with text, adaptive, ask): no inactive frame (C08), no denied frame (C12)
TOtherSearch ==
  /\ l <= Len(Rec) /\ Ev.ev \in {"vtext", "adaptive", "ask"} /\ l' = l + 1 /\ exists # "broken"
  /\ Read(Ev.ev)
  /\ LET a == Ev.args  tab == Tab IN
     IF ~ResOk THEN Chk("other.error", NeedTenant(a) \/ ~Has(Ev.res, "panic"))
     ELSE LET fs == SeqSet(Ev.res.val.frames) IN
          /\ Chk("other.enforce", ~NeedTenant(a))
          /\ Chk("other.active", \A f \in fs : f < Len(tab) /\ tab[f + 1].st = "active")
          /\ Chk("other.acl", Enforce(a) /\ ~NeedTenant(a) => \A f \in fs : f < Len(tab) => MQ!AclAllowed(AttrsOf(tab, f).acl, a.ctx))
          /\ Chk("other.asof", Has(a, "as_of_frame") => \A f \in fs : f <= a.as_of_frame)
  /\ Observed(Ev.obs)

(* --------------------------- memory cards (C26, C27) --------------------------- *)
CardOf(a, id) == [id |-> id, entity |-> a.entity, slot |-> a.slot, value |-> a.value,
                  eff |-> IF Has(a, "event_date") THEN a.event_date ELSE a.document_date,
                  rel |-> IF Has(a, "rel") THEN a.rel ELSE "sets"]
SameCard(m, o) == m.id = o.id /\ m.entity = o.entity /\ m.slot = o.slot /\ m.value = o.value /\ m.eff = o.eff /\ m.rel = o.rel
TCardPut == /\ IsEvent("card_put") /\ Read("card_put") /\ ResOk /\ Observed(Ev.obs)
            /\ Chk("card.id", \A i \in 1..Len(cmem) : cmem[i].id # Ev.res.val)
TCardGet ==
  /\ l <= Len(Rec) /\ Ev.ev \in {"card_current", "card_at"} /\ l' = l + 1 /\ exists # "broken" /\ Read(Ev.ev) /\ ResOk
  /\ LET a == Ev.args
         w == IF Ev.ev = "card_current" THEN CT!GetCurrent(cmem, a.entity, a.slot) ELSE CT!GetAtTime(cmem, a.entity, a.slot, a.t)
         ws == IF Ev.ev = "card_current" THEN CT!CurrentSet(cmem, a.entity, a.slot) ELSE CT!AtTimeSet(cmem, a.entity, a.slot, a.t)
         sel == CT!Sel(cmem, a.entity, a.slot) IN
     \* the answer is one of the cards that were put (C27: the card set is what was stored), of this entity and slot, and - beyond
     \* what C27 says, but any memory of "current value" needs it - none with a later effective time was passed over
     /\ Chk("card.query", IF ws = {} THEN ~Ev.res.val.found ELSE Ev.res.val.found /\ \E i \in ws : SameCard(cmem[i], Ev.res.val.card))
     \* which of several cards with the same effective time wins is not part of C27: compared with the transcription as drift only
     /\ Note("card.tie", w = 0 \/ ~Ev.res.val.found \/ SameCard(cmem[w], Ev.res.val.card))
     \* C27: at or beyond the latest card of the slot the answer at time t is the current one
     /\ Chk("card.latest", (Ev.ev = "card_at" /\ Has(Ev.res.val, "current") /\ (\A i \in sel : cmem[i].eff <= a.t)) =>
                              Ev.res.val.current = (IF Ev.res.val.found THEN Ev.res.val.card.id ELSE -1))
     \* C27 stated directly on the real answer
     /\ Chk("card.temporal", Ev.res.val.found => /\ Ev.res.val.card.rel # "retracts"
                                                 /\ (Ev.ev = "card_at" => Ev.res.val.card.eff <= a.t))
  /\ Observed(Ev.obs)
TCards ==
  /\ IsEvent("cards") /\ Read("cards") /\ ResOk
  /\ LET v == Ev.res.val
         expl == SelectSeq(v.cards, LAMBDA x : ~x.auto)
         auto == SelectSeq(v.cards, LAMBDA x : x.auto)
         tab == Tab IN
     \* C27: the explicit card set is exactly what was put (and, after reopen, what the last commit persisted)
     /\ Chk("card.set", Len(expl) = Len(cmem) /\ \A i \in 1..Len(cmem) : SameCard(cmem[i], expl[i]))
     \* C26: cards extracted during a put point at the frame the document really has, and say what it says
     /\ Chk("card.source", \A i \in 1..Len(auto) : auto[i].src < Len(tab) /\ tab[auto[i].src + 1].uri = auto[i].src_uri
                                                   /\ (Committed => auto[i].src_exists /\ auto[i].src_uri_matches))
     \* the value is somewhere else in the document, but not in the text of the frame the card names: never allowed
     /\ Chk("card.value", \A i \in 1..Len(auto) : (Committed /\ auto[i].src_exists /\ ~auto[i].value_in_text /\ Has(auto[i], "value_in_doc")) => ~auto[i].value_in_doc)
     \* the value is nowhere in the document: the extractor rewrote it (as built: deviation)
     /\ (\E i \in 1..Len(auto) : Committed /\ auto[i].src_exists /\ ~auto[i].value_in_text) =>
            IF "D26_value_rewritten" \in Defects THEN Dev("D26_value_rewritten") ELSE Chk("card.value", FALSE)
     /\ Chk("card.queue", \A i \in 1..Len(v.queue) : v.queue[i] < Len(tab) /\ tab[v.queue[i] + 1].role = "doc")
  /\ Observed(Ev.obs)

(* ------------------------------ logic mesh (C27) ------------------------------ *)
TMeshPut ==
  /\ l <= Len(Rec) /\ Ev.ev \in {"mesh_node", "mesh_edge"} /\ l' = l + 1 /\ exists # "broken" /\ Touch(Ev.ev) /\ ResOk /\ Observed(Ev.obs)
TMesh ==
  /\ IsEvent("mesh") /\ Read("mesh") /\ ResOk
  /\ LET v == Ev.res.val
         seenNodes == {[name |-> x.name, kind |-> x.kind, conf |-> x.conf, frames |-> SeqSet(x.frames), ments |-> SeqSet(x.ments)] : x \in SeqSet(v.nodes)}
         seenEdges == {[from |-> x.from, to |-> x.to, link |-> x.link, conf |-> x.conf, frame |-> x.frame] : x \in SeqSet(v.edges)} IN
     \* C27: the mesh is exactly what was added (and, after reopen, what the last commit persisted)
     /\ Chk("mesh.nodes", seenNodes = MT!NodeSet(mmem) /\ v.node_count = Len(mmem.nodes) /\ Len(v.nodes) = v.node_count)
     /\ Chk("mesh.edges", seenEdges = MT!EdgeSet(mmem) /\ v.edge_count = Len(mmem.edges) /\ Len(v.edges) = v.edge_count)
     /\ Chk("mesh.ids", \A x \in SeqSet(v.nodes) : x.id_ok)
  /\ Observed(Ev.obs)
TocWritten == \/ (Ev.ev \in {"commit", "vacuum"} /\ ResOk)
              \/ (Ev.ev = "close" /\ hdl = "rw")
              \/ (Ev.ev \in {"put", "update", "delete"} /\ ResOk /\ pend' = <<>>)       \* automatic commit inside the call
MMemNext == IF Ev.ev = "reset" THEN MT!Empty
            ELSE IF Ev.ev = "mesh_node" /\ ResOk
              THEN MT!MergeNode(mmem, [name |-> Ev.args.canon, kind |-> Ev.args.kind, conf |-> Ev.args.conf, frame |-> Ev.args.frame,
                                        ment |-> <<Ev.args.frame, Ev.args.start, Ev.args.len>>])
            ELSE IF Ev.ev = "mesh_edge" /\ ResOk
              THEN MT!MergeEdge(mmem, [from |-> Ev.args.cfrom \o "|" \o Ev.args.fkind, to |-> Ev.args.cto \o "|" \o Ev.args.tkind,
                                        link |-> Ev.args.link, conf |-> Ev.args.conf, frame |-> Ev.args.frame])
            ELSE IF Ev.ev \in {"open", "open_ro"} /\ ResOk THEN mdisk
            ELSE IF Ev.ev \in {"close", "abandon"} THEN MT!Empty
            ELSE mmem
MDiskNext == IF Ev.ev = "reset" THEN MT!Empty
             ELSE IF TocWritten THEN mmem
             ELSE mdisk

CMemNext == IF Ev.ev = "reset" THEN <<>>
            ELSE IF Ev.ev = "card_put" /\ ResOk THEN Append(cmem, CardOf(Ev.args, Ev.res.val))
            ELSE IF Ev.ev \in {"open", "open_ro"} /\ ResOk THEN cdisk
            ELSE IF Ev.ev \in {"close", "abandon"} THEN <<>>
            ELSE cmem
CDiskNext == IF Ev.ev = "reset" THEN <<>>
             ELSE IF Ev.ev \in {"commit", "vacuum"} /\ ResOk THEN cmem
             ELSE IF Ev.ev = "close" /\ hdl = "rw" THEN cmem
             ELSE cdisk

QAttrNext == IF Ev.ev = "reset" THEN EmptyMap
             ELSE IF Ev.ev \in {"put", "update"} /\ Has(Ev.args, "pay") /\ ResOk
               THEN (Ev.args.pay * 1000 :> QAttrOf(Ev.args)) @@ qattr
             ELSE qattr
QHistNext == IF Ev.ev = "reset" THEN EmptyMap
             ELSE IF Ev.ev \in {"search", "vsearch"} /\ ResOk /\ Has(Ev.args, "qid") /\ Ev.args.qid \notin DOMAIN qhist /\ Committed
               THEN (Ev.args.qid :> [tab |-> TabKey(Tab),
                                      res |-> IF Ev.ev = "search" THEN {Ev.res.val.hits[i].f : i \in 1..Len(Ev.res.val.hits)}
                                              ELSE [i \in 1..Len(Ev.res.val) |-> Ev.res.val[i].d2],
                                      \* the hits themselves (frame, range) and how many: compared when the page was not full
                                      hs |-> IF Ev.ev = "search" THEN {<<Ev.res.val.hits[i].f, Ev.res.val.hits[i].a, Ev.res.val.hits[i].b>> : i \in 1..Len(Ev.res.val.hits)} ELSE {},
                                      n |-> IF Ev.ev = "search" THEN Len(Ev.res.val.hits) ELSE 0]) @@ qhist
             ELSE qhist

\* C23: the same history executed a second time on a fresh path (`twin` = what the second execution logged for the
\* same call): results and logical observations must be identical; byte identity of the files is recorded separately
TwinOk == Has(Ev, "twin") =>
            /\ Chk("twin.logical", Ev.twin.res = Ev.res /\ Ev.twin.obs = Ev.obs)
            /\ (Ev.twin.fdigest # Ev.fdigest =>
                  IF "D23_bytes_differ" \in Defects THEN Dev("D23_bytes_differ") ELSE Chk("twin.bytes", FALSE))

TraceNext == ((TraceStep \/ TSearch \/ TVSearch \/ TOtherSearch \/ TCardPut \/ TCardGet \/ TCards \/ TMeshPut \/ TMesh) /\ TwinOk
              /\ prev' = Snap /\ qattr' = QAttrNext /\ qhist' = QHistNext /\ cmem' = CMemNext /\ cdisk' = CDiskNext
              /\ mmem' = MMemNext /\ mdisk' = MDiskNext /\ sides' = SidesNext)
             \/ ((TCrash \/ TCorrupt) /\ UNCHANGED <<qattr, qhist, cmem, cdisk, mmem, mdisk, sides>>)

TraceSpec == TraceInit /\ [][TraceNext]_tvars

Accept == LET d == TLCGet("stats").diameter IN
          /\ PrintT(<<"TRACE-RESULT", d - 1, Len(Rec)>>)
          /\ (d - 1 = Len(Rec) => PrintT("TRACE-ACCEPTED"))
=============================================================================
