------------------------------- MODULE Codecs -------------------------------
(***************************************************************************)
(* C30.  The four fixed binary layouts of a .mv2 file as decision           *)
(* procedures over abstract images:                                         *)
(*   header       src/io/header.rs   HeaderCodec::encode / decode           *)
(*   commit footer src/footer.rs     CommitFooter::encode / decode /        *)
(*                                   hash_matches                           *)
(*   TOC          src/toc.rs         Toc::encode / decode / verify_checksum *)
(*   time index   src/io/time_index.rs append_track / read_track /          *)
(*                                   calculate_checksum                     *)
(* An image is modelled by what its decoder can distinguish: the validity   *)
(* of each guard field (magic, version, spec bytes, declared length,        *)
(* declared count, checksum) and the value class of each value field.       *)
(* Value classes are indices into a table of boundary values that the       *)
(* harness owns (0, 1, 4095, 4096, 4097, 65536, 2^32, 2^63, 2^64-1): the    *)
(* decoders only compare against 0 and 4096 (WAL_OFFSET).                   *)
(* A case is (value, one mutation of its encoding).  TLC enumerates every   *)
(* case of the instance, checks the property's own statement on the         *)
(* transcription (RoundTrip, GuardsReject, NeverDifferent) and writes the   *)
(* cases out; the harness builds the REAL encoding of each, applies the     *)
(* mutation to the bytes, runs the REAL decoder, and Trace_Func requires    *)
(* the observed outcome to be the one the transcription computes.           *)
(***************************************************************************)
EXTENDS Integers, Sequences, FiniteSets, TLC

CONSTANTS U,          \* value classes used for u64 fields (subset of 0..8)
          MaxEntries  \* time-index entries per case

BelowWal(i) == i < 3          \* table[0..2] = 0, 1, 4095  <  WAL_OFFSET = 4096
IsZero(i) == i = 0

Rej == [ok |-> FALSE]
Acc(v) == [ok |-> TRUE, v |-> v]

(* ------------------------------- header --------------------------------- *)
HdrFields == {"fo", "wo", "ws", "cp", "sq"}
HdrValid(h) == ~BelowWal(h.wo) /\ ~IsZero(h.ws)
\* image: guard flags + the value classes + the checksum pattern id
HdrImage(h) == [magic |-> TRUE, ver |-> TRUE, spec |-> TRUE, v |-> h]
HdrEncode(h) == IF HdrValid(h) THEN [ok |-> TRUE, img |-> HdrImage(h)] ELSE [ok |-> FALSE]
HdrDecode(img) ==
  IF ~img.magic THEN Rej
  ELSE IF ~img.ver THEN Rej
  ELSE IF ~img.spec THEN Rej
  ELSE IF BelowWal(img.v.wo) THEN Rej
  ELSE IF IsZero(img.v.ws) THEN Rej
  ELSE Acc(img.v)
\* mutations of an encoded header: a flipped byte in a guard field, a value field overwritten with another
\* class, the checksum pattern replaced, garbage in the unused tail (ignored by the decoder)
HdrMutate(img, m) ==
  CASE m.k = "none" -> img
    [] m.k = "magic" -> [img EXCEPT !.magic = FALSE]
    [] m.k = "ver" -> [img EXCEPT !.ver = FALSE]
    [] m.k = "spec" -> [img EXCEPT !.spec = FALSE]
    [] m.k = "set" -> [img EXCEPT !.v[m.f] = m.to]
    [] m.k = "ck" -> [img EXCEPT !.v.ck = m.to]
    [] m.k = "tail" -> img
HdrMuts == {[k |-> "none", f |-> "", to |-> 0, b |-> 0]}
           \cup {[k |-> g, f |-> "", to |-> 0, b |-> b] : g \in {"magic"}, b \in 0..3}
           \cup {[k |-> g, f |-> "", to |-> 0, b |-> b] : g \in {"ver", "spec"}, b \in 0..1}
           \cup {[k |-> "set", f |-> f, to |-> t, b |-> 0] : f \in HdrFields, t \in U}
           \cup {[k |-> "ck", f |-> "", to |-> t, b |-> 0] : t \in 0..2}
           \cup {[k |-> "tail", f |-> "", to |-> 0, b |-> b] : b \in {80, 139, 140, 4095}}
HdrVals == [fo : {0, 8}, wo : {0, 2, 3, 4, 8}, ws : {0, 1, 5, 8}, cp : {0, 8}, sq : {1, 8}, ck : {0, 1}]
HdrCases == {[codec |-> "header", v |-> h, m |-> m] : h \in {x \in HdrVals : HdrValid(x)}, m \in HdrMuts}
            \cup {[codec |-> "header", v |-> h, m |-> [k |-> "none", f |-> "", to |-> 0, b |-> 0]] : h \in {x \in HdrVals : ~HdrValid(x)}}
HdrOutcome(c) == LET e == HdrEncode(c.v) IN
  IF ~e.ok THEN [enc |-> FALSE, dec |-> Rej] ELSE [enc |-> TRUE, dec |-> HdrDecode(HdrMutate(e.img, c.m))]

(* ------------------------------- footer --------------------------------- *)
\* value: toc_len class, generation class, hash = blake3 of toc pattern `h` (0, 1) or an unrelated digest (2)
FtImage(f) == [magic |-> TRUE, size |-> 56, v |-> f]
FtDecode(img) == IF img.size # 56 THEN Rej ELSE IF ~img.magic THEN Rej ELSE Acc(img.v)
FtMutate(img, m) ==
  CASE m.k = "none" -> img
    [] m.k = "magic" -> [img EXCEPT !.magic = FALSE]
    [] m.k = "size" -> [img EXCEPT !.size = m.to]
    [] m.k = "set" -> [img EXCEPT !.v[m.f] = m.to]
FtMuts == {[k |-> "none", f |-> "", to |-> 0, b |-> 0]}
          \cup {[k |-> "magic", f |-> "", to |-> 0, b |-> b] : b \in 0..7}
          \cup {[k |-> "size", f |-> "", to |-> t, b |-> 0] : t \in {0, 8, 55, 57, 112}}
          \cup {[k |-> "set", f |-> f, to |-> t, b |-> 0] : f \in {"len", "gen"}, t \in U}
          \cup {[k |-> "set", f |-> "h", to |-> t, b |-> 0] : t \in 0..2}
FtVals == [len : U, gen : {0, 1, 8}, h : 0..2]
FtCases == {[codec |-> "footer", v |-> f, m |-> m, toc |-> t] : f \in FtVals, m \in FtMuts, t \in 0..1}
FtOutcome(c) == LET d == FtDecode(FtMutate(FtImage(c.v), c.m)) IN
  [dec |-> d, hash_matches |-> IF d.ok THEN d.v.h = c.toc ELSE FALSE]

(* --------------------------------- TOC ---------------------------------- *)
\* value: number of frames, which optional manifests are present, whether toc_checksum was computed (good) or is arbitrary
TocOpts == {"time", "ticket", "binding", "sketch"}
TocVals == [nf : 0..2, opts : SUBSET TocOpts, ck : BOOLEAN]
TocImage(t) == [body |-> t, trail |-> 0, cut |-> 0, flipped |-> FALSE]
TocDecode(img) ==
  IF img.cut > 0 THEN Rej                       \* a truncated encoding
  ELSE IF img.trail > 0 THEN Rej                \* trailing bytes
  ELSE Acc([t |-> img.body, same |-> ~img.flipped])
TocVerify(img) == LET d == TocDecode(img) IN d.ok /\ d.v.t.ck /\ d.v.same
TocMutate(img, m) ==
  CASE m.k = "none" -> img
    [] m.k = "trail" -> [img EXCEPT !.trail = m.to]
    [] m.k = "cut" -> [img EXCEPT !.cut = m.to]
    [] m.k = "flip" -> [img EXCEPT !.flipped = TRUE]          \* a byte of a value field (toc_version / merkle_root / a frame timestamp)
    [] m.k = "flipck" -> [img EXCEPT !.body.ck = FALSE]        \* a byte of the stored checksum
TocMuts == {[k |-> "none", f |-> "", to |-> 0, b |-> 0]}
           \cup {[k |-> "trail", f |-> "", to |-> t, b |-> b] : t \in {1, 8, 56}, b \in {0, 255}}
           \cup {[k |-> "cut", f |-> "", to |-> t, b |-> 0] : t \in {1, 16, 32, 33}}
           \cup {[k |-> "flip", f |-> f, to |-> 0, b |-> 0] : f \in {"version", "merkle", "ts"}}
           \cup {[k |-> "flipck", f |-> "", to |-> 0, b |-> b] : b \in {0, 31}}
TocCases == UNION {{[codec |-> "toc", v |-> t, m |-> m] : m \in {x \in TocMuts : (x.k = "flip" /\ x.f = "ts") => t.nf > 0}} : t \in TocVals}
TocOutcome(c) == LET img == TocMutate(TocImage(c.v), c.m)  d == TocDecode(img) IN
  [dec |-> d.ok, same |-> IF d.ok THEN d.v.same /\ (c.m.k # "flipck") ELSE FALSE, verify |-> TocVerify(img)]

(* ------------------------------ time index ------------------------------ *)
\* value: a sequence of (timestamp class, frame id) pairs in insertion order; classes are ranks of i64 boundary values
Pair(t, i) == <<t, i>>
Leq(a, b) == a[1] < b[1] \/ (a[1] = b[1] /\ a[2] <= b[2])
IsSorted(s) == \A k \in 1..(Len(s) - 1) : Leq(s[k], s[k + 1])
RECURSIVE Insert(_, _)
Insert(s, x) == IF s = <<>> THEN <<x>> ELSE IF Leq(x, s[1]) THEN <<x>> \o s ELSE <<s[1]>> \o Insert(Tail(s), x)
RECURSIVE Sort(_)
Sort(s) == IF s = <<>> THEN <<>> ELSE Insert(Sort(Tail(s)), s[1])
TiEntries == UNION {[1..n -> {Pair(t, i) : t \in 0..2, i \in 0..1}] : n \in 0..MaxEntries}
\* image: what append_track writes for the entries (sorted), the declared count, and the (offset, length) the manifest carries
TiImage(es) == [magic |-> TRUE, count |-> Len(es), entries |-> Sort(es), length |-> 12 + 16 * Len(es), avail |-> Len(es)]
TiRead(img) ==
  IF ~img.magic THEN Rej
  ELSE IF img.length < 12 THEN Rej
  ELSE IF img.length - 12 # 16 * img.count THEN Rej
  ELSE IF img.count > img.avail THEN Rej                    \* read_exact runs off the end of the file
  ELSE LET got == SubSeq(img.entries, 1, img.count) IN
       IF ~IsSorted(got) THEN Rej ELSE Acc(got)
Swap(s, k) == [j \in 1..Len(s) |-> IF j = k THEN s[k + 1] ELSE IF j = k + 1 THEN s[k] ELSE s[j]]
TiMutate(img, m) ==
  CASE m.k = "none" -> img
    [] m.k = "magic" -> [img EXCEPT !.magic = FALSE]
    [] m.k = "count" -> [img EXCEPT !.count = img.count + m.to]                     \* declared count edited, manifest length kept
    [] m.k = "length" -> [img EXCEPT !.length = img.length + m.to]                  \* manifest length edited, count kept
    [] m.k = "both" -> [img EXCEPT !.count = img.count + m.to, !.length = img.length + 16 * m.to]   \* consistent with each other, not with the data
    [] m.k = "swap" -> [img EXCEPT !.entries = Swap(img.entries, m.to)]
    [] m.k = "bump" -> [img EXCEPT !.entries[m.to] = Pair(img.entries[m.to][1], img.entries[m.to][2] + 2)]   \* one frame id overwritten
TiMutsFor(es) == LET n == Len(es) IN
  {[k |-> "none", f |-> "", to |-> 0, b |-> 0]}
  \cup {[k |-> "magic", f |-> "", to |-> 0, b |-> b] : b \in 0..3}
  \cup {[k |-> "count", f |-> "", to |-> t, b |-> 0] : t \in {x \in {-1, 1} : n + x >= 0}}
  \cup {[k |-> "length", f |-> "", to |-> t, b |-> 0] : t \in {x \in {-16, -1, 1, 16} : 12 + 16 * n + x >= 0}}
  \cup {[k |-> "length", f |-> "", to |-> -(12 + 16 * n) + 11, b |-> 0]}
  \cup {[k |-> "both", f |-> "", to |-> t, b |-> 0] : t \in {x \in {-1, 1} : n + x >= 0}}
  \cup {[k |-> "swap", f |-> "", to |-> t, b |-> 0] : t \in {k \in 1..(n - 1) : Sort(es)[k] # Sort(es)[k + 1]}}
  \cup {[k |-> "bump", f |-> "", to |-> t, b |-> 0] : t \in 1..n}
TiOutcome(c) == LET r == TiRead(TiMutate(TiImage(c.v.es), c.m)) IN
  [dec |-> r, checksum_ok |-> IF r.ok THEN r.v = Sort(c.v.es) ELSE FALSE]

(* ------------------------------ the instance ----------------------------- *)
Cases == HdrCases \cup FtCases \cup TocCases \cup UNION {{[codec |-> "time", v |-> [es |-> es], m |-> m] : m \in TiMutsFor(es)} : es \in TiEntries}

VARIABLE c
Init == c \in Cases
Next == UNCHANGED c
Spec == Init /\ [][Next]_c

Untouched == c.m.k = "none"
\* C30, first sentence: the encoding of every valid value decodes back to it (the time index: to its sorted form)
RoundTrip ==
  Untouched =>
    CASE c.codec = "header" -> (HdrValid(c.v) => HdrOutcome(c) = [enc |-> TRUE, dec |-> Acc(c.v)])
      [] c.codec = "footer" -> FtOutcome(c).dec = Acc(c.v)
      [] c.codec = "toc" -> TocOutcome(c).dec /\ TocOutcome(c).same /\ (TocOutcome(c).verify = c.v.ck)
      [] c.codec = "time" -> TiOutcome(c).dec = Acc(Sort(c.v.es)) /\ TiOutcome(c).checksum_ok
\* second sentence: an inconsistent magic / version / length / checksum field, or trailing bytes, is rejected
GuardsReject ==
  CASE c.codec = "header" -> (c.m.k \in {"magic", "ver", "spec"} => ~HdrOutcome(c).dec.ok) /\ (~HdrValid(c.v) => ~HdrOutcome(c).enc)
    [] c.codec = "footer" -> (c.m.k \in {"magic", "size"} => ~FtOutcome(c).dec.ok)
                             /\ (FtOutcome(c).hash_matches => FtOutcome(c).dec.v.h = c.toc)
    [] c.codec = "toc" -> (c.m.k \in {"trail", "cut"} => ~TocOutcome(c).dec) /\ (c.m.k \in {"flip", "flipck"} => ~TocOutcome(c).verify)
    [] c.codec = "time" -> (c.m.k \in {"magic", "count", "length"} => ~TiOutcome(c).dec.ok)
                           /\ (c.m.k \in {"both", "swap", "bump"} => ~TiOutcome(c).checksum_ok)
\* "... instead of returning a different value": whatever is accepted is what the (mutated) bytes say
NeverDifferent ==
  CASE c.codec = "header" -> LET o == HdrOutcome(c) IN (o.enc /\ o.dec.ok) => o.dec.v = HdrMutate(HdrImage(c.v), c.m).v
    [] c.codec = "footer" -> LET o == FtOutcome(c) IN o.dec.ok => o.dec.v = FtMutate(FtImage(c.v), c.m).v
    [] c.codec = "toc" -> TRUE
    [] c.codec = "time" -> LET o == TiOutcome(c) IN o.dec.ok => IsSorted(o.dec.v)
=============================================================================
