---------------------------- MODULE MC_Mv2Lock ----------------------------
(* Model-checking / edge-dumping instance of Mv2Lock: two processes.        *)
EXTENDS Mv2Lock, Json

Key == ToString(<<name, exLock, shLock, disk, h, lost, nput>>)
KeyP == ToString(<<name', exLock', shLock', disk', h', lost', nput'>>)

View == <<name, nextIno, exLock, shLock, disk, h, lost, nput>>

\* one line per explored transition (spec -> impl transition tour)
EdgeDump ==
  PrintT(<<"EDGE", ToJson([s |-> Key, t |-> KeyP, op |-> last'.op, arg |-> last'.p, res |-> last'.res])>>)

\* Next plus the composed public calls: must reach no state Next alone does not reach
NextW == Next \/ (\E p \in Proc : CommitWhole(p) \/ CloseDirty(p))
SpecW == Init /\ [][NextW]_vars

\* liveness-free sanity: states in which a second open is refused exist (non-vacuity is
\* checked from the per-action coverage counts)
=============================================================================
