--------------------------- MODULE Trace_Mv2Lock ---------------------------
(* impl -> spec: validates recordings of real handles stepped through a     *)
(* schedule (harness `mvh lock-run`) against Mv2Lock.  A public call that   *)
(* performs several model steps (commit = stage + rename; drop of a dirty   *)
(* handle = stage + rename + close) is the composition of those actions.    *)
EXTENDS Mv2Lock, Json, IOUtils

Rec == ndJsonDeserialize(IOEnv.TRACE)
CONSTANT Debug
VARIABLE l
tvars == <<vars, l>>

Chk(nm, cond) == IF cond THEN TRUE ELSE (Debug /\ PrintT(<<"MISMATCH", l, nm>>))
Ev == Rec[l]
Has(r, f) == f \in DOMAIN r
P == Ev.p
IsEvent(e) == l <= Len(Rec) /\ Ev.ev = e /\ l' = l + 1
ResOk == Ev.res.ok
ResLock == ~Ev.res.ok /\ Has(Ev.res, "err") /\ Ev.res.err = "Lock"
Matches == Chk("result", IF last'.res = "ok" THEN ResOk ELSE ResLock)

\* what the independent observer saw after the call
Observed(o) ==
  /\ Chk("probe", o.probe = (IF exLock'[name'] # None THEN "busy" ELSE IF shLock'[name'] # {} THEN "shared" ELSE "free"))
  /\ Chk("xprobe", Has(o, "xprobe") => o.xprobe = o.probe)
  /\ Chk("writers", o.writers = Cardinality({p \in Proc : h'[p].st = "rw"}))
  /\ \A p \in Proc :
       IF h'[p].st = "none" THEN Chk("handle", ~Has(o.handles, p))
       ELSE /\ Chk("handle", Has(o.handles, p))
            /\ Has(o.handles, p) =>
                 /\ Chk("handle.ro", o.handles[p].ro = (h'[p].st = "ro"))
                 /\ Chk("count", o.handles[p].count = Cardinality(h'[p].seen))
                 /\ Chk("nfid", h'[p].st = "rw" => o.handles[p].nfid = Cardinality(h'[p].seen) + h'[p].pins)
  /\ Chk("inv.name_lock", WriterHoldsNameLock')                                    \* C17: a writer holds a lock of the inode the path names
  /\ Chk("inv.one_writer", Cardinality({p \in Proc : h'[p].st = "rw"}) <= 1)      \* C17, evaluated on every observed state
  /\ Chk("dir", o.dir = <<"m.mv2">>)

TraceInit == l = 1 /\ Init

TReset == /\ IsEvent("reset")
          /\ name' = 1 /\ nextIno' = 2
          /\ exLock' = [i \in Inodes |-> None] /\ shLock' = [i \in Inodes |-> {}]
          /\ disk' = [i \in Inodes |-> [frames |-> {}, pend |-> {}]]
          /\ h' = [p \in Proc |-> NoHandle] /\ lost' = {} /\ nput' = 0
          /\ last' = Obs("-", "init", "ok")

\* which of the alternatives happened is decided by logged data (result, probe), so that a diagnosis run does not
\* report the checks of the alternative that was not taken
TOpen == /\ IsEvent("open")
         /\ IF ~ResOk THEN OpenBusy(P)
            ELSE IF Ev.obs.probe = "busy" THEN Open(P) ELSE OpenReplay(P)
         /\ Matches /\ Observed(Ev.obs)
TOpenRO == IsEvent("open_ro") /\ (IF ResOk THEN OpenRO(P) ELSE OpenROBusy(P)) /\ Matches /\ Observed(Ev.obs)
TPut == IsEvent("put") /\ Put(P) /\ Matches /\ Observed(Ev.obs)
\* downgrade_to_shared() does nothing on a read-only or dirty handle; whether a clean writable handle still has a
\* lexical flush pending (then it refuses as well) is not logged: TLC infers it from the observed handle mode
TDowngrade == /\ IsEvent("downgrade") /\ ResOk
              /\ IF h[P].st = "rw" /\ ~h[P].dirty /\ Has(Ev.obs.handles, P) /\ Ev.obs.handles[P].ro THEN Downgrade(P) ELSE UNCHANGED vars
              /\ Observed(Ev.obs)
\* a put on a read-only handle: upgrade, then the put (or the upgrade fails with a Lock error)
TWPut == /\ IsEvent("wput")
         /\ IF h[P].st = "rw" THEN Put(P) /\ ResOk
            ELSE IF ResOk THEN UpgradeThenPut(P)
            \* the call failed: either the upgrade timed out, or (a handle opened read-only has a read-only log) the
            \* upgrade succeeded and the put was then refused - the handle is left writable
            ELSE IF Has(Ev.obs.handles, P) /\ ~Ev.obs.handles[P].ro THEN UpgradeOk(P) ELSE UpgradeFail(P)
         /\ Observed(Ev.obs)
TInPlace == IsEvent("inplace") /\ InPlace(P) /\ Matches /\ Observed(Ev.obs)
\* a doctor that was refused the lock must not have touched the file
TDoctor == /\ IsEvent("doctor") /\ Doctor(P) /\ Observed(Ev.obs)
           \* a panic of doctor is C22's subject; here it only counts as "did not get the lock"
           /\ Chk("result", IF last'.res = "ok" THEN ResOk ELSE (ResLock \/ (~Ev.res.ok /\ Has(Ev.res, "panic"))))
           /\ Chk("doctor.wrote", last'.res = "Lock" => ~Ev.obs.file_changed)

\* inode numbers are not observable: the trace needs one fresh inode per commit; recycle
\* by renumbering is unnecessary because MaxIno is sized to the number of commits in a run
Commit2(p) == CommitWhole(p)

\* whether a commit of a handle without pending puts still goes through staging + rename depends on
\* un-logged index state (a lexical flush pending after open): TLC infers it from the probe
\* a commit of a handle without pending puts went through staging + rename iff the handle's lock changed from
\* exclusive to shared (a pending lexical flush is not logged)
Renamed(p) == h[p].st = "rw" /\ exLock[h[p].lock] = p /\ Ev.obs.probe = "shared"
TCommit == /\ IsEvent("commit")
           /\ IF h[P].st = "rw" /\ h[P].dirty
                THEN Commit2(P) /\ last'.res = "ok" /\ ResOk
                ELSE (IF Renamed(P) THEN Commit2(P) ELSE InPlace(P)) /\ ResOk
           /\ Observed(Ev.obs)

\* vacuum compacts on a staging copy that replaces the file (after its leading commit): the path names a new inode
TVacuum == /\ IsEvent("vacuum") /\ Commit2(P) /\ ResOk /\ Observed(Ev.obs)

TClose == /\ IsEvent("close")
          /\ IF h[P].st = "rw" /\ h[P].dirty THEN CloseDirty(P) ELSE Close(P)
          /\ ResOk /\ Observed(Ev.obs)

TraceNext == TDowngrade \/ TWPut \/ TReset \/ TOpen \/ TOpenRO \/ TPut \/ TInPlace \/ TDoctor \/ TCommit \/ TVacuum \/ TClose

TraceSpec == TraceInit /\ [][TraceNext]_tvars

Accept == LET d == TLCGet("stats").diameter IN
          /\ PrintT(<<"TRACE-RESULT", d - 1, Len(Rec)>>)
          /\ (d - 1 = Len(Rec) => PrintT("TRACE-ACCEPTED"))
=============================================================================
