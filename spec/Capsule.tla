------------------------------- MODULE Capsule -------------------------------
(***************************************************************************)
(* The streaming capsule format (src/encryption/capsule_stream.rs) and its  *)
(* unlock loop as a state machine over an abstract byte stream:             *)
(*   header (magic, version, kdf, cipher, salt, nonce, original_size,       *)
(*   reserved) followed by framed chunks  len | AES-GCM(chunk i, nonce+i).  *)
(* A capsule is modelled by what unlock can distinguish: header field       *)
(* validity, and a sequence of items Len(ok) / Chunk(i, ok) / cut items.    *)
(* Tamper actions rewrite the stream; the invariant is C29: unlock fails,   *)
(* or writes exactly the original plaintext - and any tampering fails.      *)
(***************************************************************************)
EXTENDS Integers, Sequences, FiniteSets, TLC

CONSTANT MaxChunks

\* item kinds: a whole frame (length prefix + chunk) carrying plaintext chunk number `i`, authentic or not,
\* with a correct or wrong length prefix; a stream cut inside a prefix / inside a chunk; trailing garbage
Frame(i, auth, lenok) == [k |-> "frame", i |-> i, auth |-> auth, lenok |-> lenok]
CutLen == [k |-> "cutlen", i |-> 0, auth |-> FALSE, lenok |-> FALSE]
CutChunk == [k |-> "cutchunk", i |-> 0, auth |-> FALSE, lenok |-> TRUE]

Original(n) == [hdr |-> [fields_ok |-> TRUE, key_ok |-> TRUE, nonce_ok |-> TRUE, size_ok |-> TRUE, streaming |-> TRUE, rest_ok |-> TRUE],
                items |-> [j \in 1..n |-> Frame(j, TRUE, TRUE)]]

\* the unlock loop: returns <<ok?, sequence of plaintext chunk numbers written>>
RECURSIVE Loop(_, _, _, _)
Loop(c, pos, idx, acc) ==       \* pos: item index, idx: chunk counter (nonce = base + idx)
  IF pos > Len(c.items) THEN <<TRUE, acc>>
  ELSE LET it == c.items[pos] IN
    IF it.k = "cutlen" THEN <<FALSE, acc>>                      \* truncated length prefix (as repaired: an error)
    ELSE IF it.k = "cutchunk" THEN <<FALSE, acc>>               \* read_exact fails
    ELSE IF ~it.lenok THEN <<FALSE, acc>>                        \* wrong length: the chunk cannot be read / authenticated
    ELSE IF ~(it.auth /\ c.hdr.key_ok /\ c.hdr.nonce_ok /\ it.i = idx + 1) THEN <<FALSE, acc>>   \* AES-GCM tag check
    ELSE Loop(c, pos + 1, idx + 1, Append(acc, it.i))

Unlock(c, n) ==
  IF ~c.hdr.fields_ok THEN <<FALSE, <<>>>>                       \* magic / version / kdf / cipher
  ELSE IF ~c.hdr.streaming THEN <<FALSE, <<>>>>                   \* one-shot path: the framed body does not authenticate as one blob
  ELSE IF ~c.hdr.rest_ok THEN <<FALSE, <<>>>>                     \* reserved bytes must be what lock wrote
  ELSE LET r == Loop(c, 1, 0, <<>>) IN
       IF ~r[1] THEN r
       ELSE IF ~(c.hdr.size_ok /\ Len(r[2]) = n) THEN <<FALSE, r[2]>>    \* written bytes must equal original_size
       ELSE r

(* -------------------------------- tampering ----------------------------- *)
Remove(s, k) == [j \in 1..(Len(s) - 1) |-> IF j < k THEN s[j] ELSE s[j + 1]]
Tampers(n) ==
  LET o == Original(n) IN
  {[o EXCEPT !.hdr.fields_ok = FALSE], [o EXCEPT !.hdr.key_ok = FALSE], [o EXCEPT !.hdr.nonce_ok = FALSE],
   [o EXCEPT !.hdr.size_ok = FALSE], [o EXCEPT !.hdr.streaming = FALSE]}
  \cup {[o EXCEPT !.items[k].auth = FALSE] : k \in 1..n}                          \* bit flip inside a chunk
  \cup {[o EXCEPT !.items[k].lenok = FALSE] : k \in 1..n}                         \* bit flip inside a length prefix
  \cup {[o EXCEPT !.items = SubSeq(o.items, 1, k)] : k \in 0..(n - 1)}           \* truncation at a chunk boundary
  \cup {[o EXCEPT !.items = Append(SubSeq(o.items, 1, k), CutLen)] : k \in 0..n}  \* truncation inside a length prefix / trailing bytes
  \cup {[o EXCEPT !.items = Append(SubSeq(o.items, 1, k), CutChunk)] : k \in 0..(n - 1)}  \* truncation inside a chunk
  \cup {[o EXCEPT !.items = [j \in 1..n |-> IF j = k THEN o.items[k + 1] ELSE IF j = k + 1 THEN o.items[k] ELSE o.items[j]]] : k \in 1..(n - 1)}   \* swap
  \cup {[o EXCEPT !.items = SubSeq(o.items, 1, k) \o <<o.items[k]>> \o SubSeq(o.items, k + 1, n)] : k \in 1..n}   \* duplicate
  \cup {[o EXCEPT !.items = Remove(o.items, k)] : k \in 1..n}                      \* drop a chunk

\* the abstract capsule a concrete tamper action of the harness produces (harness/src/capsule.rs), n = number of chunks
CapOf(n, t) ==
  LET o == Original(n)  k == t.k IN
  CASE t.kind = "none" -> o
    [] t.kind = "flip_header" ->
         (IF k <= 7 THEN [o EXCEPT !.hdr.fields_ok = FALSE] ELSE IF k <= 39 THEN [o EXCEPT !.hdr.key_ok = FALSE]
          ELSE IF k <= 51 THEN [o EXCEPT !.hdr.nonce_ok = FALSE] ELSE IF k <= 59 THEN [o EXCEPT !.hdr.size_ok = FALSE]
          ELSE IF k = 60 THEN [o EXCEPT !.hdr.streaming = FALSE] ELSE [o EXCEPT !.hdr.rest_ok = FALSE])
    [] t.kind = "trunc_header" -> [o EXCEPT !.hdr.fields_ok = FALSE]
    [] t.kind = "flip_len" -> [o EXCEPT !.items[k + 1].lenok = FALSE]
    [] t.kind = "flip_chunk" -> [o EXCEPT !.items[k + 1].auth = FALSE]
    [] t.kind = "trunc_boundary" -> [o EXCEPT !.items = SubSeq(o.items, 1, k)]
    [] t.kind = "trunc_in_len" -> [o EXCEPT !.items = Append(SubSeq(o.items, 1, k), CutLen)]
    [] t.kind = "trunc_in_chunk" -> [o EXCEPT !.items = Append(SubSeq(o.items, 1, k), CutChunk)]
    [] t.kind = "swap" -> [o EXCEPT !.items = [j \in 1..n |-> IF j = k + 1 THEN o.items[k + 2] ELSE IF j = k + 2 THEN o.items[k + 1] ELSE o.items[j]]]
    [] t.kind = "dup" -> [o EXCEPT !.items = SubSeq(o.items, 1, k + 1) \o <<o.items[k + 1]>> \o SubSeq(o.items, k + 2, n)]
    [] t.kind = "drop" -> [o EXCEPT !.items = Remove(o.items, k + 1)]
    [] t.kind = "append" -> [o EXCEPT !.items = Append(o.items, CutLen)]

VARIABLE c
Init == c \in UNION {{[n |-> n, cap |-> x, tampered |-> TRUE] : x \in Tampers(n)} : n \in 1..MaxChunks}
             \cup {[n |-> n, cap |-> Original(n), tampered |-> FALSE] : n \in 1..MaxChunks}
Next == UNCHANGED c
Spec == Init /\ [][Next]_c

\* C29: round trip; a tampered capsule never unlocks; nothing but the original is ever produced
RoundTrip == (~c.tampered) => Unlock(c.cap, c.n) = <<TRUE, [j \in 1..c.n |-> j]>>
TamperRejected == (c.tampered /\ c.cap # Original(c.n)) => ~Unlock(c.cap, c.n)[1]
NeverWrongPlaintext == Unlock(c.cap, c.n)[1] => Unlock(c.cap, c.n)[2] = [j \in 1..c.n |-> j]
=============================================================================
