------------------------------ MODULE Mv2Core ------------------------------
(***************************************************************************)
(* API-level state machine of one memvid memory (.mv2), crash-free: one    *)
(* action per public call of `Memvid`, modelling what the code does (as    *)
(* built), with the embedded log at cursor level (cf. WalAbs).             *)
(*                                                                         *)
(* Abstract state: the committed frame table (the TOC), the pending window *)
(* of the log, the log's numbers (region size, head, pending bytes,        *)
(* sequence, checkpoint sequence, appends since checkpoint), the handle,   *)
(* the ticket.  Payloads and embeddings are identified by small integers   *)
(* that the harness maps to concrete bytes / vectors.                      *)
(*                                                                         *)
(* Named deviations (constant Defects), each a genuine as-built behaviour  *)
(* that violates a listed property; with Defects = {} the module is the    *)
(* intended design:                                                        *)
(*  "D08_update_chunked_empty"  update_frame(f, no payload) of a chunked   *)
(*        document reuses the parent's (empty) stored payload: the new     *)
(*        version has empty content and the chunks keep pointing at f      *)
(*  "D24_pending_ignored"  the capacity check ignores bytes of pending     *)
(*        (uncommitted) inserts                                            *)
(*  "D01_commit_growth"  when the Lex-batch record a commit appends does   *)
(*        not fit and the log region is grown *inside* the commit, the     *)
(*        data shift happens under half-updated offsets: every payload     *)
(*        read fails afterwards and the file no longer opens               *)
(***************************************************************************)
EXTENDS Integers, Sequences, FiniteSets, TLC

CONSTANTS H,        \* log entry header size (48 bytes in traces, small in model checking)
          R0,       \* initial log region size
          TierCap,  \* capacity when the ticket grants none
          HdrSize,  \* bytes before the log region (4096)
          Defects

VARIABLES exists,   \* "no" | "ok" | "broken" (the file exists / was damaged by deviation D01)
          frames,   \* committed frame table: sequence of frame records (id = index - 1)
          pend,     \* pending log records since the last checkpoint
          wR, wh, wpb, wapc, wseq, wcseq,   \* embedded log numbers
          hdl,      \* "none" | "rw" | "ro"
          snap,     \* frame table a read-only handle sees
          dirty, pins,   \* dirty flag, pending_frame_inserts
          noAuto,   \* batch mode with auto-checkpoint disabled
          ticket,   \* [seq, cap, mem, ver] as the handle has it + d: the copy in the file's TOC
          cpe,      \* cached payload end (absolute offset) used by the capacity check
          acked,    \* ghost: acknowledged mutations since the last successful commit, in order
          last      \* observation of the last call

wal  == <<wR, wh, wpb, wapc, wseq, wcseq>>
vars == <<exists, frames, pend, wR, wh, wpb, wapc, wseq, wcseq, hdl, snap, dirty, pins, noAuto, ticket, cpe, acked, last>>

Max(a, b) == IF a > b THEN a ELSE b
Obs(op, res, val) == [op |-> op, res |-> res, val |-> val]

NoFrame == -1
MetaFields == {"title", "track", "kind", "tags", "labels", "extra"}
NoMeta == [f \in MetaFields |-> 0]
\* update_frame: every descriptive field the caller leaves unspecified is inherited from the old version
InheritMeta(given, old) == [f \in MetaFields |-> IF given[f] # 0 THEN given[f] ELSE old[f]]
Frame(uri, role, parent, sup, ts, pay, emb, ci, cc, slen) ==
  [uri |-> uri, st |-> "active", role |-> role, parent |-> parent, sup |-> sup, supby |-> NoFrame,
   ts |-> ts, pay |-> pay, emb |-> emb, ci |-> ci, cc |-> cc, slen |-> slen,
   gone |-> FALSE,      \* gone: payload extent dropped by vacuum (inactive frames only)
   meta |-> NoMeta]     \* descriptive fields (title, track, kind, tags, labels, extra) as abstract ids; 0 = not specified

(* ------------------------------ log records ---------------------------- *)
Ins(seq, uri, role, pseq, sup, reuse, ts, pay, emb, ci, cc, slen) ==
  [k |-> "ins", seq |-> seq, uri |-> uri, role |-> role, pseq |-> pseq, sup |-> sup, reuse |-> reuse,
   ts |-> ts, pay |-> pay, emb |-> emb, ci |-> ci, cc |-> cc, slen |-> slen, target |-> NoFrame, meta |-> NoMeta]
Tomb(seq, target) ==
  [k |-> "tomb", seq |-> seq, uri |-> "", role |-> "doc", pseq |-> 0, sup |-> NoFrame, reuse |-> NoFrame,
   ts |-> 0, pay |-> 0, emb |-> 0, ci |-> -1, cc |-> -1, slen |-> 0, target |-> target, meta |-> NoMeta]
Lex(seq) ==
  [k |-> "lex", seq |-> seq, uri |-> "", role |-> "doc", pseq |-> 0, sup |-> NoFrame, reuse |-> NoFrame,
   ts |-> 0, pay |-> 0, emb |-> 0, ci |-> -1, cc |-> -1, slen |-> 0, target |-> NoFrame, meta |-> NoMeta]

(* ------------------------- embedded log arithmetic --------------------- *)
RECURSIVE GrowTo(_, _)
GrowTo(r, target) == IF r <= target THEN GrowTo(2 * r, target) ELSE r

\* append_wal_entry: grow (doubling, data shifted) until the entry fits; returns
\* the region size and the offset the record is written at
RECURSIVE Place(_, _, _, _)
Place(r, h, pb, e) ==
  IF e <= r /\ pb + e <= r /\ ~(h + e > r /\ pb > 0)
    THEN [r |-> r, w0 |-> IF h + e > r THEN 0 ELSE h]
    ELSE Place(GrowTo(r, Max(e, r + 1)), h, pb, e)

\* state of the log numbers after appending records of the given payload lengths
RECURSIVE AppendAll(_, _)
AppendAll(w, lens) ==   \* w = [r, h, pb, apc, seq]
  IF lens = <<>> THEN w
  ELSE LET e == H + Head(lens)
           p == Place(w.r, w.h, w.pb, e)
           apc0 == IF p.r # w.r THEN 0 ELSE w.apc      \* growth reopens the log: counter restarts
       IN AppendAll([r |-> p.r, h |-> p.w0 + e, pb |-> w.pb + e, apc |-> apc0 + 1, seq |-> w.seq + 1], Tail(lens))

W == [r |-> wR, h |-> wh, pb |-> wpb, apc |-> wapc, seq |-> wseq]

\* deviation D01: the Lex-batch append of a commit grows the region
GrowsOnLex(w, lexLen) == lexLen > 0 /\ AppendAll(w, <<lexLen>>).r # w.r
Damage(w, lexLen) == IF "D01_commit_growth" \in Defects /\ GrowsOnLex(w, lexLen) THEN "broken" ELSE exists
Due(w) == w.pb * 4 >= 3 * w.r \/ w.apc >= 1000        \* should_checkpoint()

(* ------------------------- applying log records ------------------------ *)
\* content a payload-reusing update ends up with
ReusedPay(f) == IF f.cc > 0 /\ f.role = "doc" /\ "D08_update_chunked_empty" \in Defects THEN 0 ELSE f.pay

RECURSIVE LastManifestDoc(_, _)
LastManifestDoc(fs, i) == IF i = 0 THEN NoFrame
                          ELSE IF fs[i].role = "doc" /\ fs[i].cc > 0 /\ fs[i].st = "active" THEN i - 1
                          ELSE LastManifestDoc(fs, i - 1)

\* supersede `t` by `id`; earlier successors of `t` inserted in the same batch (several
\* updates of one frame before a commit) are superseded too, so one version stays active
MarkSup(fs, t, id, batchIds) ==
  [i \in 1..Len(fs) |->
     IF i - 1 = t \/ ((i - 1) \in batchIds /\ fs[i].sup = t /\ fs[i].st = "active")
       THEN [fs[i] EXCEPT !.st = "superseded", !.supby = id] ELSE fs[i]]

RECURSIVE ApplyRecs(_, _, _)
ApplyRecs(fs, recs, s2f) ==
  IF recs = <<>> THEN fs
  ELSE LET r == Head(recs) IN
    IF r.k = "ins" THEN
      LET id  == Len(fs)
          par == IF r.pseq = 0 THEN NoFrame
                 ELSE IF r.pseq \in DOMAIN s2f THEN s2f[r.pseq] ELSE LastManifestDoc(fs, Len(fs))
          src == IF r.reuse >= 0 THEN fs[r.reuse + 1] ELSE r
          pay == IF r.reuse >= 0 THEN ReusedPay(src) ELSE r.pay
          sl  == IF r.reuse >= 0 THEN src.slen ELSE r.slen
          fr  == [Frame(r.uri, r.role, par, r.sup, r.ts, pay, r.emb, r.ci, r.cc, sl) EXCEPT !.meta = r.meta]
          fs1 == IF r.sup >= 0 THEN MarkSup(fs, r.sup, id, {s2f[k] : k \in DOMAIN s2f}) ELSE fs
      IN ApplyRecs(Append(fs1, fr), Tail(recs), (r.seq :> id) @@ s2f)
    ELSE IF r.k = "tomb" THEN
      ApplyRecs([fs EXCEPT ![r.target + 1].st = "deleted", ![r.target + 1].supby = NoFrame], Tail(recs), s2f)
    ELSE ApplyRecs(fs, Tail(recs), s2f)

EmptyMap == [x \in {} |-> 0]
Apply(fs, recs) == ApplyRecs(fs, recs, EmptyMap)

Capacity == IF ticket.cap # 0 THEN ticket.cap ELSE TierCap

(* ------------------------------- the ticket ----------------------------- *)
\* seq / cap: the ticket last accepted; mem: the dashboard memory the file is bound to (0 = unbound); ver: the
\* last accepted ticket carried a valid signature.  They live in the TOC: the handle's copy changes at once, the
\* file's copy `d` whenever the TOC is written (every commit, vacuum, apply_ticket ...), and open reads it back.
Tk(seq, cap, mem, ver) == [seq |-> seq, cap |-> cap, mem |-> mem, ver |-> ver]
Live(t) == Tk(t.seq, t.cap, t.mem, t.ver)
Persist(t) == [t EXCEPT !.d = Live(t)]
Load(t) == [seq |-> t.d.seq, cap |-> t.d.cap, mem |-> t.d.mem, ver |-> t.d.ver, d |-> t.d]
WithD(live, d) == [seq |-> live.seq, cap |-> live.cap, mem |-> live.mem, ver |-> live.ver, d |-> d]

RECURSIVE PendingStored(_)
PendingStored(recs) == IF recs = <<>> THEN 0
                       ELSE (IF Head(recs).k = "ins" /\ Head(recs).reuse < 0 THEN Head(recs).slen ELSE 0) + PendingStored(Tail(recs))

(* --------------------------------- actions ----------------------------- *)
Init ==
  /\ exists = "no" /\ frames = <<>> /\ pend = <<>>
  /\ wR = R0 /\ wh = 0 /\ wpb = 0 /\ wapc = 0 /\ wseq = 0 /\ wcseq = 0
  /\ hdl = "none" /\ snap = <<>> /\ dirty = FALSE /\ pins = 0 /\ noAuto = FALSE
  /\ ticket = WithD(Tk(0, 0, 0, FALSE), Tk(0, 0, 0, FALSE)) /\ cpe = 0 /\ acked = <<>>
  /\ last = Obs("init", "ok", 0)

Create ==
  /\ hdl = "none"
  /\ exists' = "ok" /\ frames' = <<>> /\ pend' = <<>>
  /\ wR' = R0 /\ wh' = 0 /\ wpb' = 0 /\ wapc' = 0 /\ wseq' = 0 /\ wcseq' = 0
  /\ hdl' = "rw" /\ snap' = <<>> /\ dirty' = FALSE /\ pins' = 0 /\ noAuto' = FALSE
  /\ ticket' = WithD(Tk(1, TierCap, 0, FALSE), Tk(1, TierCap, 0, FALSE))  \* free-tier placeholder ticket
  /\ cpe' = HdrSize + R0 /\ acked' = <<>>
  /\ last' = Obs("create", "ok", 0)

\* the effect of a full commit on frames / log numbers, given the length of the
\* Lex-batch record the commit appends to the log (0 = none appended)
CommitEffect(lexLen, pe) ==
  LET w1 == IF lexLen > 0 THEN AppendAll(W, <<lexLen>>) ELSE W IN
  /\ frames' = Apply(frames, pend)
  /\ pend' = <<>>
  /\ wR' = w1.r /\ wh' = w1.h /\ wpb' = 0 /\ wapc' = 0 /\ wseq' = w1.seq /\ wcseq' = w1.seq
  /\ dirty' = FALSE /\ pins' = 0 /\ acked' = <<>>
  /\ cpe' = Max(cpe, pe)      \* cached payload end only ever grows
  /\ exists' = Damage(W, lexLen)

NothingToCommit == pend = <<>> /\ ~dirty

Commit(lexLen, pe) ==
  /\ hdl = "rw"
  /\ IF NothingToCommit /\ lexLen = 0
       THEN UNCHANGED <<frames, pend, wal, dirty, pins, acked, cpe, exists, ticket>>
       ELSE CommitEffect(lexLen, pe) /\ ticket' = Persist(ticket)
  /\ UNCHANGED <<hdl, snap, noAuto>>
  /\ last' = Obs("commit", "ok", 0)

\* open read-write: replay the pending window in place, then checkpoint
OpenRW(lexLen, pe) ==
  /\ hdl = "none" /\ exists = "ok"
  /\ exists' = Damage(W, lexLen)
  /\ IF pend = <<>>
       THEN \* nothing to replay; a pending lexical flush appends a Lex record that stays pending
            LET w1 == IF lexLen > 0 THEN AppendAll(W, <<lexLen>>) ELSE W IN
            /\ frames' = frames /\ acked' = acked
            /\ pend' = (IF lexLen > 0 THEN <<Lex(w1.seq)>> ELSE <<>>)
            /\ wR' = w1.r /\ wh' = w1.h /\ wpb' = w1.pb /\ wseq' = w1.seq /\ wcseq' = wcseq /\ wapc' = 0
       ELSE /\ frames' = Apply(frames, pend) /\ pend' = <<>> /\ acked' = <<>>
            /\ LET w1 == IF lexLen > 0 THEN AppendAll(W, <<lexLen>>) ELSE W IN
               /\ wR' = w1.r /\ wh' = w1.h /\ wpb' = 0 /\ wseq' = w1.seq /\ wcseq' = w1.seq
            /\ wapc' = 0
  /\ hdl' = "rw" /\ dirty' = FALSE /\ pins' = 0 /\ noAuto' = FALSE
  /\ cpe' = Max(HdrSize + wR', pe)   \* recomputed from the frame table at open
  /\ ticket' = Load(ticket)
  /\ UNCHANGED snap
  /\ last' = Obs("open", "ok", 0)

OpenRO ==
  /\ hdl = "none" /\ exists = "ok"
  /\ hdl' = "ro" /\ snap' = frames
  /\ ticket' = Load(ticket)
  /\ UNCHANGED <<exists, frames, pend, wal, dirty, pins, noAuto, cpe, acked>>
  /\ last' = Obs("open_ro", "ok", 0)

\* Drop: commits when dirty
Close(lexLen, pe) ==
  /\ hdl # "none"
  /\ IF hdl = "rw" /\ (dirty \/ lexLen > 0)
       THEN CommitEffect(lexLen, pe) /\ ticket' = Persist(ticket)
       ELSE UNCHANGED <<frames, pend, wal, dirty, pins, acked, cpe, exists, ticket>>
  /\ hdl' = "none" /\ noAuto' = FALSE
  /\ UNCHANGED snap
  /\ last' = Obs("close", "ok", 0)

\* the handle disappears between two calls without Drop running
Abandon ==
  /\ hdl # "none"
  /\ hdl' = "none" /\ dirty' = FALSE /\ pins' = 0 /\ noAuto' = FALSE
  /\ UNCHANGED <<exists, frames, pend, wal, snap, ticket, cpe, acked>>
  /\ last' = Obs("abandon", "ok", 0)

\* common tail of put / update / delete: records appended, then auto-commit if due
AppendRecords(recs, lens, nIns, lexLen, pe, op, ack) ==
  LET w1 == AppendAll(W, lens) IN
  IF ~noAuto /\ Due(w1)
    THEN \* auto-commit inside the call
      LET w2 == IF lexLen > 0 THEN AppendAll(w1, <<lexLen>>) ELSE w1 IN
      /\ frames' = Apply(frames, pend \o recs) /\ pend' = <<>>
      /\ wR' = w2.r /\ wh' = w2.h /\ wpb' = 0 /\ wapc' = 0 /\ wseq' = w2.seq /\ wcseq' = w2.seq
      /\ dirty' = FALSE /\ pins' = 0 /\ acked' = <<>>
      /\ cpe' = Max(cpe, pe) /\ exists' = Damage(w1, lexLen)
      /\ ticket' = Persist(ticket)
      /\ last' = Obs(op, "ok", wseq + 1)
    ELSE
      /\ lexLen = 0 /\ cpe' = cpe /\ exists' = exists
      /\ frames' = frames /\ pend' = pend \o recs
      /\ wR' = w1.r /\ wh' = w1.h /\ wpb' = w1.pb /\ wapc' = w1.apc /\ wseq' = w1.seq /\ wcseq' = wcseq
      /\ dirty' = TRUE /\ pins' = pins + nIns /\ acked' = Append(acked, ack)
      /\ ticket' = ticket
      /\ last' = Obs(op, "ok", wseq + 1)

RECURSIVE ChunkRecs(_, _, _, _, _, _, _)
ChunkRecs(k, n, pseq, uri, ts, pay, cembs) ==     \* records of chunks k..n-1
  IF k >= n THEN <<>>
  ELSE <<Ins(pseq + 1 + k, uri \o "#page-" \o ToString(k + 1), "chunk", pseq, NoFrame, NoFrame, ts, pay + 1 + k,
             IF k < Len(cembs) THEN cembs[k + 1] ELSE 0, k, n, 0)>>
       \o ChunkRecs(k + 1, n, pseq, uri, ts, pay, cembs)

Reject(op, why) == /\ last' = Obs(op, why, 0)
                   /\ UNCHANGED <<exists, frames, pend, wal, hdl, snap, dirty, pins, noAuto, ticket, cpe, acked>>

CapacityUsed == cpe + (IF "D24_pending_ignored" \in Defects THEN 0 ELSE PendingStored(pend))

\* put: `lens` = payload lengths of the log records written (parent, then chunks)
\* the capacity test of put / update: the bytes the payload will occupy are charged against the cached payload end
Over(slen) == slen > 0 /\ CapacityUsed + slen > Capacity

PutDo(uri, role, ts, pay, emb, nchunks, cembs, slen, lens, lexLen, pe, meta) ==
  LET pseq == wseq + 1
      parent == [Ins(pseq, uri, role, 0, NoFrame, NoFrame, ts, pay, emb, -1,
                     IF nchunks > 0 THEN nchunks ELSE -1, IF nchunks > 0 THEN 0 ELSE slen) EXCEPT !.meta = meta]
      recs == <<parent>> \o ChunkRecs(0, nchunks, pseq, uri, ts, pay, cembs)
  IN /\ hdl = "rw" /\ Len(lens) = 1 + nchunks
     /\ AppendRecords(recs, lens, 1 + nchunks, lexLen, pe, "put", [k |-> "put", pay |-> pay, uri |-> uri])
     /\ UNCHANGED <<hdl, snap, noAuto>>

PutM(uri, role, ts, pay, emb, nchunks, cembs, slen, lens, lexLen, pe, meta) ==
  /\ hdl = "rw"
  /\ Len(lens) = 1 + nchunks
  /\ IF Over(slen)
       THEN Reject("put", "CapacityExceeded")
       ELSE PutDo(uri, role, ts, pay, emb, nchunks, cembs, slen, lens, lexLen, pe, meta)

Put(uri, role, ts, pay, emb, nchunks, cembs, slen, lens, lexLen, pe) ==
  PutM(uri, role, ts, pay, emb, nchunks, cembs, slen, lens, lexLen, pe, NoMeta)

\* update_frame(f, payload?, emb?): a new frame superseding f
UpdateM(f, hasPay, pay, emb, nchunks, slen, lens, lexLen, pe, meta) ==
  /\ hdl = "rw"
  /\ Len(lens) = 1 + nchunks
  /\ IF f < 0 \/ f >= Len(frames) THEN Reject("update", "FrameNotFound")
     ELSE IF frames[f + 1].st # "active" THEN Reject("update", "InvalidFrame")
     ELSE IF hasPay /\ slen > 0 /\ CapacityUsed + slen > Capacity THEN Reject("update", "CapacityExceeded")
     ELSE LET old == frames[f + 1]
              pseq == wseq + 1
              e    == IF emb > 0 THEN emb ELSE old.emb
              parent0 == IF hasPay
                          THEN Ins(pseq, old.uri, "doc", 0, f, NoFrame, old.ts, pay, e, -1,
                                   IF nchunks > 0 THEN nchunks ELSE -1, IF nchunks > 0 THEN 0 ELSE slen)
                          ELSE Ins(pseq, old.uri, "doc", 0, f, f, old.ts, 0, e, -1, -1, 0)
              parent == [parent0 EXCEPT !.meta = InheritMeta(meta, old.meta)]
              recs == <<parent>> \o (IF hasPay THEN ChunkRecs(0, nchunks, pseq, old.uri, old.ts, pay, <<>>) ELSE <<>>)
          IN /\ (~hasPay => nchunks = 0)
             /\ AppendRecords(recs, lens, 1 + nchunks, lexLen, pe, "update", [k |-> "update", pay |-> pay, uri |-> old.uri])
             /\ UNCHANGED <<hdl, snap, noAuto>>

Update(f, hasPay, pay, emb, nchunks, slen, lens, lexLen, pe) == UpdateM(f, hasPay, pay, emb, nchunks, slen, lens, lexLen, pe, NoMeta)

Delete(f, len, lexLen, pe) ==
  /\ hdl = "rw"
  /\ IF f < 0 \/ f >= Len(frames) THEN Reject("delete", "FrameNotFound")
     ELSE IF frames[f + 1].st # "active" THEN Reject("delete", "InvalidFrame")
     ELSE /\ AppendRecords(<<Tomb(wseq + 1, f)>>, <<len>>, 0, lexLen, pe, "delete", [k |-> "delete", pay |-> f, uri |-> ""])
          /\ UNCHANGED <<hdl, snap, noAuto>>

\* vacuum = commit, then rewrite active payloads contiguously in place and rebuild indexes
Vacuum(lexLen, lexLen2, pe) ==
  /\ hdl = "rw"
  /\ LET w1 == IF lexLen > 0 THEN AppendAll(W, <<lexLen>>) ELSE W
         committed == ~(NothingToCommit /\ lexLen = 0)
         w2 == IF lexLen2 > 0 THEN AppendAll([w1 EXCEPT !.pb = IF committed THEN 0 ELSE w1.pb,
                                                         !.apc = IF committed THEN 0 ELSE w1.apc], <<lexLen2>>)
               ELSE [w1 EXCEPT !.pb = IF committed THEN 0 ELSE w1.pb, !.apc = IF committed THEN 0 ELSE w1.apc] IN
     /\ frames' = [i \in 1..Len(Apply(frames, pend)) |->
                    LET f == Apply(frames, pend)[i] IN IF f.st # "active" THEN [f EXCEPT !.gone = TRUE] ELSE f]
     \* the record appended by the index rebuild is checkpointed before vacuum returns
     /\ pend' = <<>>
     /\ wR' = w2.r /\ wh' = w2.h /\ wpb' = 0 /\ wapc' = 0 /\ wseq' = w2.seq
     /\ wcseq' = w2.seq
     /\ dirty' = (IF committed THEN FALSE ELSE dirty) /\ pins' = 0 /\ acked' = <<>>
  /\ cpe' = Max(cpe, pe)
  /\ exists' = (IF Damage(W, lexLen) = "broken" THEN "broken" ELSE exists)
  /\ ticket' = Persist(ticket)
  /\ UNCHANGED <<hdl, snap, noAuto>>
  /\ last' = Obs("vacuum", "ok", 0)

\* Memvid::doctor(path, opts) on a closed file: replays the pending window, optionally vacuums, rebuilds what the
\* options ask for, recomputes the TOC and resets the log (sequence numbers restart from 0); a run that finds
\* nothing to do reports Clean and changes nothing; dry_run only plans
\* which status may doctor report?
DoctorStatusAllowed(vac, rebuild, dry, st) ==
  LET todo == pend # <<>> \/ vac \/ rebuild
      \* C21: a run right after a completed run finds nothing to do.  Otherwise a run without pending records
      \* or options may still report Healed: the health of the index segments is not part of this model.
      immediate == last.op = "doctor" /\ last.val \in {"Healed", "Clean"} IN
  /\ st \in {"Clean", "Healed", "PlanOnly"}
  /\ (dry => st = (IF todo THEN "PlanOnly" ELSE st) /\ st \in {"PlanOnly", "Clean"})
  /\ (~dry => st \in {"Clean", "Healed"} /\ (todo => st = "Healed") /\ (~todo /\ immediate => st = "Clean"))

DoctorEffect(vac, rebuild, dry, st) ==
  /\ hdl = "none" /\ exists = "ok"
  /\ IF dry
       THEN /\ last' = Obs("doctor", "ok", st)
            /\ UNCHANGED <<exists, frames, pend, wal, hdl, snap, dirty, pins, noAuto, ticket, cpe, acked>>
       ELSE \* as built, also a run that reports Clean rewrites the header and zeroes the (checkpointed) log
            /\ frames' = (LET fs == Apply(frames, pend) IN
                           IF vac THEN [i \in 1..Len(fs) |-> IF fs[i].st # "active" THEN [fs[i] EXCEPT !.gone = TRUE] ELSE fs[i]]
                           ELSE fs)
            /\ pend' = <<>> /\ acked' = <<>>
            /\ wR' = wR /\ wh' = 0 /\ wpb' = 0 /\ wapc' = 0 /\ wseq' = 0 /\ wcseq' = 0
            /\ last' = Obs("doctor", "ok", st)
            /\ UNCHANGED <<exists, hdl, snap, dirty, pins, noAuto, ticket, cpe>>

Doctor(vac, rebuild, dry, st) == DoctorStatusAllowed(vac, rebuild, dry, st) /\ DoctorEffect(vac, rebuild, dry, st)

ApplyTicket(s, c) ==
  /\ hdl = "rw"
  /\ IF s <= ticket.seq THEN Reject("ticket", "TicketSequence")
     ELSE /\ ticket' = Persist([ticket EXCEPT !.seq = s, !.cap = c, !.ver = FALSE])      \* the TOC is rewritten at once
          /\ last' = Obs("ticket", "ok", 0)
          /\ UNCHANGED <<exists, frames, pend, wal, hdl, snap, dirty, pins, noAuto, cpe, acked>>

\* apply_signed_ticket: accepted only when the file is bound, the ticket names that memory, its Ed25519 signature over the
\* canonical payload verifies (`authentic`: decided outside the model - the harness knows whether it signed exactly these
\* fields with the key the crate trusts) and its sequence number is newer.  Which error a rejected ticket gets is not modelled.
SignedAccepted(s, m, authentic) == ticket.mem # 0 /\ m = ticket.mem /\ authentic /\ s > ticket.seq
ApplySigned(s, c, m, authentic) ==
  /\ hdl = "rw"
  /\ IF ~SignedAccepted(s, m, authentic) THEN Reject("signed_ticket", "rejected")
     ELSE /\ ticket' = Persist([ticket EXCEPT !.seq = s, !.cap = c, !.ver = TRUE])
          /\ last' = Obs("signed_ticket", "ok", 0)
          /\ UNCHANGED <<exists, frames, pend, wal, hdl, snap, dirty, pins, noAuto, cpe, acked>>

\* set_memory_binding_only(m): refused when bound to another memory; in the handle only until the next TOC write
BindOnly(m) ==
  /\ hdl = "rw"
  /\ IF ticket.mem \notin {0, m} THEN Reject("bind_only", "MemoryAlreadyBound")
     ELSE /\ ticket' = [ticket EXCEPT !.mem = m] /\ dirty' = TRUE
          /\ last' = Obs("bind_only", "ok", 0)
          /\ UNCHANGED <<exists, frames, pend, wal, hdl, snap, pins, noAuto, cpe, acked>>

\* bind_memory(m, unsigned ticket): the ticket is applied (and written) first, then the binding is set in the handle
Bind(m, s, c) ==
  /\ hdl = "rw"
  /\ IF ticket.mem \notin {0, m} THEN Reject("bind", "MemoryAlreadyBound")
     ELSE IF s <= ticket.seq THEN Reject("bind", "TicketSequence")
     ELSE /\ ticket' = [Persist([ticket EXCEPT !.seq = s, !.cap = c, !.ver = FALSE]) EXCEPT !.mem = m]
          /\ dirty' = TRUE
          /\ last' = Obs("bind", "ok", 0)
          /\ UNCHANGED <<exists, frames, pend, wal, hdl, snap, pins, noAuto, cpe, acked>>

\* unbind_memory: back to the free-tier placeholder ticket (sequence 1): the sequence numbers accepted before no longer count
Unbind ==
  /\ hdl = "rw"
  /\ ticket' = WithD(Tk(1, TierCap, 0, FALSE), ticket.d) /\ dirty' = TRUE
  /\ last' = Obs("unbind", "ok", 0)
  /\ UNCHANGED <<exists, frames, pend, wal, hdl, snap, pins, noAuto, cpe, acked>>

RECURSIVE Pow2AtLeast(_, _)
Pow2AtLeast(p, n) == IF p >= n THEN p ELSE Pow2AtLeast(2 * p, n)
\* begin_batch(options): with wal_pre_size_bytes above the current region size the log region is grown at once to the next
\* power of two (data shifted, TOC and header rewritten, the log reopened: pending records stay pending)
BeginBatchPre(na, presize) ==
  /\ hdl = "rw" /\ noAuto' = na /\ last' = Obs("begin_batch", "ok", 0)
  /\ IF presize > wR
       THEN /\ wR' = Pow2AtLeast(1, presize) /\ wapc' = 0 /\ ticket' = Persist(ticket)
            /\ UNCHANGED <<wh, wpb, wseq, wcseq>>
       ELSE UNCHANGED <<wal, ticket>>
  /\ UNCHANGED <<exists, frames, pend, hdl, snap, dirty, pins, cpe, acked>>
BeginBatch(na) == BeginBatchPre(na, 0)
EndBatch == /\ hdl = "rw" /\ noAuto' = FALSE /\ last' = Obs("end_batch", "ok", 0)
            /\ UNCHANGED <<exists, frames, pend, wal, hdl, snap, dirty, pins, ticket, cpe, acked>>

\* commit_skip_indexes: the pending window is applied and checkpointed in place, no index is (re)built and no
\* Lex-batch record is appended.  finalize_indexes: all indexes are rebuilt in place; the lexical rebuild appends a
\* Lex-batch record that stays pending until the next commit / open.
CommitSkip(pe) ==
  /\ hdl = "rw"
  /\ frames' = Apply(frames, pend) /\ pend' = <<>>
  /\ wR' = wR /\ wh' = wh /\ wpb' = 0 /\ wapc' = 0 /\ wseq' = wseq /\ wcseq' = wseq
  /\ dirty' = FALSE /\ pins' = 0 /\ acked' = <<>> /\ cpe' = Max(cpe, pe)
  /\ ticket' = Persist(ticket)
  /\ UNCHANGED <<exists, hdl, snap, noAuto>>
  /\ last' = Obs("commit_skip", "ok", 0)

Finalize(lexLen) ==
  /\ hdl = "rw"
  /\ LET w1 == IF lexLen > 0 THEN AppendAll(W, <<lexLen>>) ELSE W IN
     /\ pend' = (IF lexLen > 0 THEN Append(pend, Lex(w1.seq)) ELSE pend)
     /\ wR' = w1.r /\ wh' = w1.h /\ wpb' = w1.pb /\ wapc' = w1.apc /\ wseq' = w1.seq /\ wcseq' = wcseq
  /\ ticket' = Persist(ticket)
  /\ UNCHANGED <<exists, frames, hdl, snap, dirty, pins, noAuto, cpe, acked>>
  /\ last' = Obs("finalize", "ok", 0)

\* calls that change something kept next to the frames (logic mesh ...): the handle is dirty, the next commit writes it
Touch(op) == /\ hdl = "rw" /\ dirty' = TRUE /\ last' = Obs(op, "ok", 0)
             /\ UNCHANGED <<exists, frames, pend, wal, hdl, snap, pins, noAuto, ticket, cpe, acked>>

\* reads never change anything
Read(op) == /\ hdl # "none" /\ last' = Obs(op, "ok", 0)
            /\ UNCHANGED <<exists, frames, pend, wal, hdl, snap, dirty, pins, noAuto, ticket, cpe, acked>>

(* ------------------------ what a handle exposes ------------------------ *)
Visible == IF hdl = "ro" THEN snap ELSE frames
NextFrameId == Len(frames) + pins

ActiveIds(fs) == {i \in 0..(Len(fs) - 1) : fs[i + 1].st = "active"}

\* frame_by_uri: newest active frame with the URI, else newest frame with it
ByUri(fs, u) ==
  LET act == {i \in ActiveIds(fs) : fs[i + 1].uri = u}
      any == {i \in 0..(Len(fs) - 1) : fs[i + 1].uri = u} IN
  IF act # {} THEN CHOOSE i \in act : \A j \in act : j <= i
  ELSE IF any # {} THEN CHOOSE i \in any : \A j \in any : j <= i ELSE NoFrame

\* timeline: active document-role frames ordered by (timestamp, id)
TimelineIds(fs) == {i \in ActiveIds(fs) : fs[i + 1].role = "doc"}
Before(fs, i, j) == fs[i + 1].ts < fs[j + 1].ts \/ (fs[i + 1].ts = fs[j + 1].ts /\ i < j)
RECURSIVE SortIds(_, _)
SortIds(fs, S) == IF S = {} THEN <<>>
                  ELSE LET m == CHOOSE i \in S : \A j \in S \ {i} : Before(fs, i, j) IN <<m>> \o SortIds(fs, S \ {m})
Timeline(fs, since, until, hasSince, hasUntil) ==
  SortIds(fs, {i \in TimelineIds(fs) : (hasSince => fs[i + 1].ts >= since) /\ (hasUntil => fs[i + 1].ts <= until)})

(* ------------------------------- invariants ---------------------------- *)
\* C06: ids are dense and in put order; supersede links are consistent (C08)
LinksConsistent ==
  \A i \in 1..Len(frames) :
    /\ (frames[i].sup >= 0 => frames[i].sup < i - 1)
    /\ (frames[i].supby >= 0 => /\ frames[i].supby < Len(frames) /\ frames[i].supby > i - 1
                                /\ frames[frames[i].supby + 1].sup >= 0
                                /\ frames[i].st = "superseded")
    /\ (frames[i].role = "chunk" => frames[i].parent >= 0 /\ frames[i].parent < i - 1)

\* C01: everything acknowledged and not yet in `frames` is in the pending window
AckedArePending == Len(acked) = 0 \/ pend # <<>>

\* C08: an update's successor carries the same URI
SuccessorKeepsUri ==
  \A i \in 1..Len(frames) : frames[i].supby >= 0 => frames[frames[i].supby + 1].uri = frames[i].uri

\* C24 (intended design): committed payload never beyond capacity
WalNumbersSane == /\ wpb <= wR /\ wh <= wR /\ wseq >= wcseq /\ wpb >= 0
=============================================================================
