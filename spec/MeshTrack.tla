----------------------------- MODULE MeshTrack -----------------------------
(***************************************************************************)
(* The logic mesh (src/types/logic_mesh.rs): entity nodes and relationship *)
(* edges kept next to the frames, persisted with every commit.             *)
(*   merge_node: nodes are identified by (canonical name, kind); a second  *)
(*     node of the same identity adds its frames (no duplicates) and       *)
(*     mentions to the first and raises the confidence to the maximum.     *)
(*   merge_edge: edges are identified by (from, to, link); a duplicate is  *)
(*     dropped (the first one's confidence and frame stay).                *)
(* serialize sorts nodes and edges, so the mesh is a set: `nodes` is a     *)
(* function from identities to [conf, frames, ments], `edges` a function   *)
(* from keys to [conf, frame].  C27: the mesh a reopened memory shows is   *)
(* the one the last commit stored (Trace_Mv2Core keeps a copy "in the      *)
(* handle" and one "in the file", as for memory cards).                    *)
(***************************************************************************)
EXTENDS Integers, Sequences, FiniteSets, TLC

Empty == [nodes |-> <<>>, edges |-> <<>>]      \* sequences of records, kept sorted by nothing: compared as sets

NodeKey(n) == <<n.name, n.kind>>
EdgeKey(e) == <<e.from, e.to, e.link>>
Max2(a, b) == IF a > b THEN a ELSE b

HasNode(m, k) == \E i \in 1..Len(m.nodes) : NodeKey(m.nodes[i]) = k
HasEdge(m, k) == \E i \in 1..Len(m.edges) : EdgeKey(m.edges[i]) = k

\* n = [name, kind, conf, frame, ment]  (one frame and one mention per call, as MeshNode::new builds it)
MergeNode(m, n) ==
  IF HasNode(m, NodeKey(n))
    THEN [m EXCEPT !.nodes = [i \in 1..Len(m.nodes) |->
            IF NodeKey(m.nodes[i]) = NodeKey(n)
              THEN [m.nodes[i] EXCEPT !.conf = Max2(@, n.conf), !.frames = @ \cup {n.frame}, !.ments = @ \cup {n.ment}]
              ELSE m.nodes[i]]]
    ELSE [m EXCEPT !.nodes = Append(@, [name |-> n.name, kind |-> n.kind, conf |-> n.conf, frames |-> {n.frame}, ments |-> {n.ment}])]

\* e = [from, to, link, conf, frame]
MergeEdge(m, e) == IF HasEdge(m, EdgeKey(e)) THEN m ELSE [m EXCEPT !.edges = Append(@, e)]

NodeSet(m) == {m.nodes[i] : i \in 1..Len(m.nodes)}
EdgeSet(m) == {m.edges[i] : i \in 1..Len(m.edges)}
Same(a, b) == NodeSet(a) = NodeSet(b) /\ EdgeSet(a) = EdgeSet(b)

(* ------------------------------ enumeration ----------------------------- *)
CONSTANTS MaxOps
VARIABLES mesh, n
Names == {"a", "b"}
Kinds == {"person", "org"}
NodeArgs == [name : Names, kind : Kinds, conf : {10, 90}, frame : {0, 1}, ment : {<<0, 1, 2>>, <<1, 5, 2>>}]
EdgeArgs == [from : Names, to : Names, link : {"manager", "member"}, conf : {50, 80}, frame : {0, 1}]
Init == mesh = Empty /\ n = 0
Next == /\ n < MaxOps /\ n' = n + 1
        /\ \/ \E a \in NodeArgs : mesh' = MergeNode(mesh, a)
           \/ \E a \in EdgeArgs : mesh' = MergeEdge(mesh, a)
Spec == Init /\ [][Next]_<<mesh, n>>

\* identities stay unique; a merge never loses a frame, a mention or confidence; a duplicate edge changes nothing
UniqueKeys == /\ \A i, j \in 1..Len(mesh.nodes) : NodeKey(mesh.nodes[i]) = NodeKey(mesh.nodes[j]) => i = j
              /\ \A i, j \in 1..Len(mesh.edges) : EdgeKey(mesh.edges[i]) = EdgeKey(mesh.edges[j]) => i = j
Monotone == [][ /\ \A x \in NodeSet(mesh) : \E y \in NodeSet(mesh') :
                     NodeKey(y) = NodeKey(x) /\ y.conf >= x.conf /\ x.frames \subseteq y.frames /\ x.ments \subseteq y.ments
                /\ EdgeSet(mesh) \subseteq EdgeSet(mesh') ]_<<mesh, n>>
=============================================================================
