------------------------------ MODULE Mv2Lock ------------------------------
(***************************************************************************)
(* Writers, inodes and advisory locks of one .mv2 path.                    *)
(*                                                                         *)
(* memvid serialises writers with flock() on the *inode* the path named at *)
(* open time, but every commit builds a sibling temp file and rename()s it *)
(* over the path: afterwards the path names a NEW inode.  The model keeps  *)
(* exactly that: a directory entry `name -> inode`, a lock table per       *)
(* inode, per-handle file/lock inodes, the committed frame set per inode.  *)
(*                                                                         *)
(* One action per critical step of the code:                               *)
(*   Open / OpenRO / OpenBusy  FileLock::open_and_lock, open_read_only     *)
(*   Put                       WAL append on the handle's file inode       *)
(*   CommitStage               CommitStaging::prepare + copy + apply       *)
(*   CommitRename              staging.commit(): rename over the name,     *)
(*                             reopen by path; lock hand-over              *)
(*   Vacuum                    commit, then in-place rewrite (no rename)   *)
(*   Doctor                    static call: try-lock the path's inode,     *)
(*                             rewrite in place, unlock                    *)
(*   Close / Abandon           Drop (commit when dirty) / handle lost      *)
(*                                                                         *)
(* Deviation "D17_lock_on_old_inode" (constant Defects) is the behaviour   *)
(* of the code before the repair: the lock stays on the unlinked inode.    *)
(***************************************************************************)
EXTENDS Integers, Sequences, FiniteSets, TLC

CONSTANTS Proc, MaxIno, MaxPuts, Defects

\* the lock upgrade / downgrade path is part of the model only when asked for (it admits a known two-writer schedule)
UpgradeEnabled == "with_upgrade" \in Defects \/ "trace" \in Defects

VARIABLES name,      \* inode the path currently names
          nextIno,   \* next fresh inode
          exLock,    \* inode -> holder of the exclusive flock, or "none"
          shLock,    \* inode -> set of holders of a shared flock
          disk,      \* inode -> [frames: set of tokens, pend: set of tokens]  (committed / in the log)
          h,         \* proc -> handle record
          lost,      \* ghost: tokens whose commit returned ok (acknowledged durable)
          nput,      \* tokens issued so far
          last       \* observation of the last step

vars == <<name, nextIno, exLock, shLock, disk, h, lost, nput, last>>

None == "none"
NoHandle == [st |-> "none", file |-> 0, lock |-> 0, stage |-> 0, dirty |-> FALSE, seen |-> {}, pins |-> 0]
\* seen: tokens in the handle's in-memory frame table; pins: its own un-committed puts
Inodes == 1..MaxIno

Obs(p, op, res) == [p |-> p, op |-> op, res |-> res]

Init ==
  /\ name = 1 /\ nextIno = 2
  /\ exLock = [i \in Inodes |-> None]
  /\ shLock = [i \in Inodes |-> {}]
  /\ disk = [i \in Inodes |-> [frames |-> {}, pend |-> {}]]
  /\ h = [p \in Proc |-> NoHandle]
  /\ lost = {} /\ nput = 0
  /\ last = Obs("-", "init", "ok")

Free(i) == exLock[i] = None /\ shLock[i] = {}

\* exclusive open of the path: flock(LOCK_EX | LOCK_NB) on the inode the name resolves to;
\* a pending window found in the log is replayed in place (recover_wal)
Open(p) ==
  /\ h[p].st = "none"
  /\ Free(name) /\ disk[name].pend = {}
  /\ exLock' = [exLock EXCEPT ![name] = p]
  /\ h' = [h EXCEPT ![p] = [st |-> "rw", file |-> name, lock |-> name, stage |-> 0, dirty |-> FALSE,
                             seen |-> disk[name].frames \cup disk[name].pend, pins |-> 0]]
  /\ disk' = [disk EXCEPT ![name] = [frames |-> @.frames \cup @.pend, pend |-> {}]]
  /\ last' = Obs(p, "open", "ok")
  /\ UNCHANGED <<name, nextIno, shLock, lost, nput>>

\* exclusive open of a file whose log holds acknowledged-but-unapplied records: the replay runs on a staging copy
\* that replaces the file (like a commit), so the handle ends up on a new inode, holding its lock in shared mode
OpenReplay(p) ==
  /\ h[p].st = "none"
  /\ Free(name)         \* pend may be empty: a pending lexical-index record (no frame) is replayed the same way
  /\ nextIno <= MaxIno
  /\ LET n == nextIno
         nf == disk[name].frames \cup disk[name].pend IN
     /\ disk' = [disk EXCEPT ![n] = [frames |-> nf, pend |-> {}]]
     /\ name' = n /\ nextIno' = nextIno + 1
     /\ IF "D17_lock_on_old_inode" \in Defects
          THEN /\ exLock' = [exLock EXCEPT ![name] = p] /\ shLock' = shLock
               /\ h' = [h EXCEPT ![p] = [st |-> "rw", file |-> n, lock |-> name, stage |-> 0, dirty |-> FALSE, seen |-> nf, pins |-> 0]]
          ELSE /\ exLock' = exLock /\ shLock' = [shLock EXCEPT ![n] = @ \cup {p}]
               /\ h' = [h EXCEPT ![p] = [st |-> "rw", file |-> n, lock |-> n, stage |-> 0, dirty |-> FALSE, seen |-> nf, pins |-> 0]]
  /\ last' = Obs(p, "open", "ok")
  /\ UNCHANGED <<lost, nput>>

\* an exclusive open attempt while the inode is locked fails and changes nothing
OpenBusy(p) ==
  /\ h[p].st = "none"
  /\ ~Free(name)
  /\ last' = Obs(p, "open", "Lock")
  /\ UNCHANGED <<name, nextIno, exLock, shLock, disk, h, lost, nput>>

OpenRO(p) ==
  /\ h[p].st = "none"
  /\ exLock[name] = None
  /\ shLock' = [shLock EXCEPT ![name] = @ \cup {p}]
  /\ h' = [h EXCEPT ![p] = [st |-> "ro", file |-> name, lock |-> name, stage |-> 0, dirty |-> FALSE,
                             seen |-> disk[name].frames, pins |-> 0]]
  /\ last' = Obs(p, "open_ro", "ok")
  /\ UNCHANGED <<name, nextIno, exLock, disk, lost, nput>>

OpenROBusy(p) ==
  /\ h[p].st = "none"
  /\ exLock[name] # None
  /\ last' = Obs(p, "open_ro", "Lock")
  /\ UNCHANGED <<name, nextIno, exLock, shLock, disk, h, lost, nput>>

Put(p) ==
  /\ h[p].st = "rw" /\ h[p].stage = 0
  /\ nput < MaxPuts
  /\ nput' = nput + 1
  /\ disk' = [disk EXCEPT ![h[p].file].pend = @ \cup {nput + 1}]
  /\ h' = [h EXCEPT ![p].dirty = TRUE, ![p].pins = @ + 1]
  /\ last' = Obs(p, "put", "ok")
  /\ UNCHANGED <<name, nextIno, exLock, shLock, lost>>

\* commit, first half: sibling temp inode = copy of the handle's file with the pending window applied.
\* Intended design: the temp inode is locked before it can get a name.
CommitStage(p) ==
  /\ h[p].st = "rw" /\ h[p].stage = 0
  /\ nextIno <= MaxIno
  /\ LET n == nextIno  src == disk[h[p].file] IN
     /\ disk' = [disk EXCEPT ![n] = [frames |-> src.frames \cup src.pend, pend |-> {}]]
     /\ h' = [h EXCEPT ![p].stage = n]
     \* the staging inode is locked in SHARED mode: enough to keep writers out (they need the exclusive lock to
     \* open) while read-only handles may still open the committed file next to a living writer
     /\ shLock' = IF "D17_lock_on_old_inode" \in Defects THEN shLock ELSE [shLock EXCEPT ![n] = @ \cup {p}]
  /\ nextIno' = nextIno + 1
  /\ last' = Obs(p, "stage", "ok")
  /\ UNCHANGED <<name, exLock, lost, nput>>

\* commit, second half: rename(temp, path) + reopen by path; the old inode loses its name.
\* Intended design: the handle's lock moves to the new inode (old lock released);
\* as built before the repair: the handle keeps holding the lock of the unlinked inode.
CommitRename(p) ==
  /\ h[p].st = "rw" /\ h[p].stage # 0
  /\ LET n == h[p].stage IN
     /\ name' = n
     /\ lost' = lost \cup disk[n].frames
     /\ IF "D17_lock_on_old_inode" \in Defects
          THEN /\ h' = [h EXCEPT ![p].file = n, ![p].stage = 0, ![p].dirty = FALSE, ![p].seen = disk[n].frames, ![p].pins = 0]
               /\ exLock' = exLock /\ shLock' = shLock
          ELSE /\ h' = [h EXCEPT ![p].file = n, ![p].lock = n, ![p].stage = 0, ![p].dirty = FALSE,
                                  ![p].seen = disk[n].frames, ![p].pins = 0]
               \* the lock of the old inode (exclusive before the first commit, shared afterwards) is released
               /\ exLock' = [exLock EXCEPT ![h[p].lock] = IF @ = p THEN None ELSE @]
               /\ shLock' = [shLock EXCEPT ![h[p].lock] = @ \ {p}]
  /\ last' = Obs(p, "commit", "ok")
  /\ UNCHANGED <<nextIno, disk, nput>>

\* The public commit() call as one step: exactly CommitStage(p) followed by CommitRename(p)
\* (TLC does not implement action composition; the engine's self-test checks that adding this
\* action to Next creates no state that Stage;Rename does not reach).
CommitWhole(p) ==
  /\ h[p].st = "rw" /\ h[p].stage = 0
  /\ nextIno <= MaxIno
  /\ LET n == nextIno
         nf == disk[h[p].file].frames \cup disk[h[p].file].pend IN
     /\ disk' = [disk EXCEPT ![n] = [frames |-> nf, pend |-> {}]]
     /\ name' = n /\ nextIno' = nextIno + 1
     /\ lost' = lost \cup nf
     /\ IF "D17_lock_on_old_inode" \in Defects
          THEN /\ h' = [h EXCEPT ![p].file = n, ![p].dirty = FALSE, ![p].seen = nf, ![p].pins = 0]
               /\ exLock' = exLock /\ shLock' = shLock
          ELSE /\ h' = [h EXCEPT ![p].file = n, ![p].lock = n, ![p].dirty = FALSE, ![p].seen = nf, ![p].pins = 0]
               /\ exLock' = [exLock EXCEPT ![h[p].lock] = IF @ = p THEN None ELSE @]
               /\ shLock' = [i \in Inodes |-> IF i = n THEN shLock[i] \cup {p} ELSE IF i = h[p].lock THEN shLock[i] \ {p} ELSE shLock[i]]
  /\ last' = Obs(p, "commit", "ok")
  /\ UNCHANGED <<nput>>

\* Drop of a dirty handle: commit, then release
CloseDirty(p) ==
  /\ h[p].st = "rw" /\ h[p].stage = 0 /\ h[p].dirty
  /\ nextIno <= MaxIno
  /\ LET n == nextIno
         nf == disk[h[p].file].frames \cup disk[h[p].file].pend IN
     /\ disk' = [disk EXCEPT ![n] = [frames |-> nf, pend |-> {}]]
     /\ name' = n /\ nextIno' = nextIno + 1
     /\ lost' = lost \cup nf
     /\ exLock' = [i \in Inodes |-> IF exLock[i] = p THEN None ELSE exLock[i]]
     /\ shLock' = [i \in Inodes |-> shLock[i] \ {p}]
     /\ h' = [h EXCEPT ![p] = NoHandle]
  /\ last' = Obs(p, "close", "ok")
  /\ UNCHANGED <<nput>>

\* downgrade_to_shared(): a clean writable handle becomes read-only and keeps (only) a shared lock
Downgrade(p) ==
  /\ h[p].st = "rw" /\ h[p].stage = 0 /\ ~h[p].dirty
  /\ exLock' = [exLock EXCEPT ![h[p].lock] = IF @ = p THEN None ELSE @]
  /\ shLock' = [shLock EXCEPT ![h[p].lock] = @ \cup {p}]
  /\ h' = [h EXCEPT ![p].st = "ro"]
  /\ last' = Obs(p, "downgrade", "ok")
  /\ UNCHANGED <<name, nextIno, disk, lost, nput>>

\* a mutation on a read-only handle first upgrades its lock (ensure_writable): the shared lock is released and the
\* exclusive lock of the handle's OWN inode is taken - which may no longer be the inode the path names
OthersHold(p, i) == (exLock[i] # None /\ exLock[i] # p) \/ (shLock[i] \ {p}) # {}
UpgradeOk(p) ==
  /\ h[p].st = "ro" /\ ~OthersHold(p, h[p].lock)
  /\ exLock' = [exLock EXCEPT ![h[p].lock] = p]
  /\ shLock' = [shLock EXCEPT ![h[p].lock] = @ \ {p}]
  /\ h' = [h EXCEPT ![p].st = "rw"]
  /\ last' = Obs(p, "upgrade", "ok")
  /\ UNCHANGED <<name, nextIno, disk, lost, nput>>
\* the upgrade times out: as built the handle has already given up its shared lock and now holds nothing
UpgradeFail(p) ==
  /\ h[p].st = "ro" /\ OthersHold(p, h[p].lock)
  /\ shLock' = [shLock EXCEPT ![h[p].lock] = @ \ {p}]
  /\ last' = Obs(p, "upgrade", "Lock")
  /\ UNCHANGED <<name, nextIno, exLock, disk, h, lost, nput>>

UpgradeThenPut(p) ==
  /\ h[p].st = "ro" /\ ~OthersHold(p, h[p].lock) /\ nput < MaxPuts
  /\ exLock' = [exLock EXCEPT ![h[p].lock] = p]
  /\ shLock' = [shLock EXCEPT ![h[p].lock] = @ \ {p}]
  /\ nput' = nput + 1
  /\ disk' = [disk EXCEPT ![h[p].file].pend = @ \cup {nput + 1}]
  /\ h' = [h EXCEPT ![p].st = "rw", ![p].dirty = TRUE, ![p].pins = @ + 1]
  /\ last' = Obs(p, "put", "ok")
  /\ UNCHANGED <<name, nextIno, lost>>

\* in-place maintenance on the handle's own file (vacuum after its commit, apply_ticket, ...)
InPlace(p) ==
  /\ h[p].st = "rw" /\ h[p].stage = 0
  /\ last' = Obs(p, "inplace", "ok")
  /\ UNCHANGED <<name, nextIno, exLock, shLock, disk, h, lost, nput>>

\* Memvid::doctor(path): a static call that needs the exclusive lock of the path's inode
Doctor(p) ==
  /\ h[p].st = "none"
  /\ IF Free(name)
       THEN /\ disk' = [disk EXCEPT ![name] = [frames |-> @.frames \cup @.pend, pend |-> {}]]
            /\ last' = Obs(p, "doctor", "ok")
       ELSE /\ disk' = disk /\ last' = Obs(p, "doctor", "Lock")
  /\ UNCHANGED <<name, nextIno, exLock, shLock, h, lost, nput>>

Release(p) ==
  /\ exLock' = [i \in Inodes |-> IF exLock[i] = p THEN None ELSE exLock[i]]
  /\ shLock' = [i \in Inodes |-> shLock[i] \ {p}]

\* Drop of a clean handle (a dirty one commits first: CommitStage, CommitRename, then this)
Close(p) ==
  /\ h[p].st # "none" /\ h[p].stage = 0 /\ ~h[p].dirty
  /\ Release(p)
  /\ h' = [h EXCEPT ![p] = NoHandle]
  /\ last' = Obs(p, "close", "ok")
  /\ UNCHANGED <<name, nextIno, disk, lost, nput>>

\* the process dies / the handle is leaked: the kernel releases its locks, a temp inode never gets a name
Abandon(p) ==
  /\ h[p].st # "none"
  /\ Release(p)
  /\ h' = [h EXCEPT ![p] = NoHandle]
  /\ last' = Obs(p, "abandon", "ok")
  /\ UNCHANGED <<name, nextIno, disk, lost, nput>>

Next == \E p \in Proc : \/ Open(p) \/ OpenReplay(p) \/ OpenBusy(p) \/ OpenRO(p) \/ OpenROBusy(p) \/ Put(p)
                        \/ CommitStage(p) \/ CommitRename(p) \/ InPlace(p) \/ Doctor(p)
                        \/ (UpgradeEnabled /\ (Downgrade(p) \/ UpgradeOk(p) \/ UpgradeFail(p)))
                        \/ Close(p) \/ Abandon(p)

Spec == Init /\ [][Next]_vars

(* -------------------------------- properties ---------------------------- *)
Writers == {p \in Proc : h[p].st = "rw"}

\* C17: at most one writable handle for the path at any time
AtMostOneWriter == Cardinality(Writers) <= 1

\* C17: a writable handle holds the exclusive lock of the inode the path names (between its calls),
\* i.e. an independent flock probe on the path must find it busy
WriterHoldsNameLock ==
  \A p \in Writers : h[p].stage = 0 => (exLock[name] = p \/ p \in shLock[name])

\* C17 consequence: no commit is silently lost - everything whose commit returned is in the file
\* the path names now (committed or still in its log)
NoLostCommit == lost \subseteq (disk[name].frames \cup disk[name].pend)

\* readers and a writer never share an inode lock
LockTableSane == \A i \in Inodes : exLock[i] # None => shLock[i] = {}

\* the probe an observer can make without touching any handle
ProbeFree == Free(name)
=============================================================================
