----------------------------- MODULE ChunkPlan -----------------------------
(***************************************************************************)
(* C34.  Chunk planning of unstructured text (src/memvid/chunks.rs:          *)
(* build_chunk_manifest / choose_chunk_boundary), transcribed over abstract  *)
(* texts: a text is a sequence of character classes                          *)
(*    "a" letter   "s" white space other than newline   "n" newline          *)
(*    "." sentence terminal ( . ! ? )                                        *)
(* (the planner works in characters, so byte widths do not matter).          *)
(* The planner cuts the text into ranges of about C characters, moving each   *)
(* cut to a nearby newline / sentence end / white space within a slack       *)
(* window S.  TLC checks the property's own statement - the ranges are        *)
(* contiguous, start at 0, end at the character count, none is empty - for   *)
(* every text of the instance; the harness runs the REAL planner on texts    *)
(* given in run-length form and Trace_Func requires the contract on the real *)
(* ranges and compares them with this transcription.                         *)
(***************************************************************************)
EXTENDS Integers, Sequences, FiniteSets, TLC

CONSTANTS MaxLen,      \* texts of 0..MaxLen characters
          Sizes,       \* chunk sizes C explored
          Slacks       \* slack windows S explored

Classes == {"a", "s", "n", "."}
Min2(a, b) == IF a < b THEN a ELSE b
MinOf(S) == CHOOSE x \in S : \A y \in S : x <= y
MaxOf(S) == CHOOSE x \in S : \A y \in S : x >= y

\* character at 0-based index i
Ch(t, i) == t[i + 1]
IsWs(c) == c \in {"s", "n"}

\* choose_chunk_boundary(chars, start, target, total, slack)
Boundary(t, start, target, total, slack) ==
  IF target >= total THEN total
  ELSE LET fl == Min2(target + slack, total)
           fwd == target..(fl - 1)
           bwd == start..(target - 1)
           fwdNl == {i \in fwd : Ch(t, i) = "n"}
           fwdTerm == {i \in fwd : Ch(t, i) = "."}
           back == {i \in bwd : Ch(t, i) \in {"n", "."}}       \* the backward scan stops at the first of either
           fwdWs == {i \in fwd : IsWs(Ch(t, i))}
           backWs == {i \in bwd : IsWs(Ch(t, i))} IN
       IF fwdNl # {} THEN MinOf(fwdNl) + 1                      \* a newline ahead, inside the slack window, wins outright
       ELSE IF back # {} THEN MaxOf(back) + 1                   \* nearest newline / sentence end behind the target (distance 0 beats any ahead)
       ELSE IF fwdTerm # {} THEN MinOf(fwdTerm) + 1             \* else the first sentence end ahead
       ELSE IF fwdWs # {} THEN MinOf(fwdWs) + 1                 \* else white space ahead ...
       ELSE IF backWs # {} THEN MaxOf(backWs) + 1               \* ... or behind
       ELSE target                                              \* else a hard cut

\* build_chunk_manifest: <<>> stands for None (text not longer than one chunk)
RECURSIVE PlanFrom(_, _, _, _, _)
PlanFrom(t, total, start, C, S) ==
  IF start >= total THEN <<>>
  ELSE LET target == Min2(start + C, total)
           e == Boundary(t, start, target, total, S)
           end == IF e <= start THEN target ELSE e IN          \* the fallback "progress by at least one chunk"
       <<<<start, end>>>> \o PlanFrom(t, total, end, C, S)
Plan(t, C, S) == IF C = 0 \/ Len(t) <= C THEN <<>> ELSE PlanFrom(t, Len(t), 0, C, S)

\* C34: the ranges partition [0, total)
Partition(r, total) ==
  /\ Len(r) > 0
  /\ r[1][1] = 0 /\ r[Len(r)][2] = total
  /\ \A k \in 1..Len(r) : r[k][1] < r[k][2]
  /\ \A k \in 1..(Len(r) - 1) : r[k][2] = r[k + 1][1]

\* run-length text (<<count, class>>, ...) -> sequence of classes
RECURSIVE Expand(_)
Expand(rl) == IF rl = <<>> THEN <<>> ELSE [k \in 1..rl[1][1] |-> rl[1][2]] \o Expand(Tail(rl))

VARIABLE c
Texts == UNION {[1..n -> Classes] : n \in 0..MaxLen}
Init == c \in [t : Texts, C : Sizes, S : Slacks]
Next == UNCHANGED c
Spec == Init /\ [][Next]_c

PlanIsPartition == LET r == Plan(c.t, c.C, c.S) IN IF Len(c.t) <= c.C THEN r = <<>> ELSE Partition(r, Len(c.t))
\* no chunk is longer than the chunk size plus the slack window
Bounded == \A k \in 1..Len(Plan(c.t, c.C, c.S)) : Plan(c.t, c.C, c.S)[k][2] - Plan(c.t, c.C, c.S)[k][1] <= c.C + c.S
=============================================================================
