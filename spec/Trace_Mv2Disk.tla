--------------------------- MODULE Trace_Mv2Disk ---------------------------
(***************************************************************************)
(* impl -> spec: the file operations one recorded history of the real      *)
(* crate performed (LD_PRELOAD recorder, shim/fsrec.c), one event per      *)
(* system call, stepped through the file-system layer of Mv2Disk.          *)
(*                                                                         *)
(* The image a write leaves in an inode is abstracted by what the REAL     *)
(* recovery makes of it: `recs`, the positions in the history's chain of   *)
(* logical states (state after call 0, 1, 2, ...) whose frame table equals *)
(* the one Memvid::open shows on that image ([] when open fails or shows   *)
(* anything else).  The disk engine obtains it by materialising the image  *)
(* and running open on it (the same probes the crash enumeration uses).    *)
(*                                                                         *)
(* Checked on every event, with the operators of Mv2Disk:                  *)
(*   disk.proc   ProcSafe   - the name shows a state in [acknowledged,     *)
(*               acknowledged + in flight] after a process crash     (C02) *)
(*   disk.power  PowerSafe  - so does every image a power loss can leave:  *)
(*               either directory, any image of that inode since its last  *)
(*               fsync - all of them, not a sample                   (C03) *)
(*   disk.ack    AckDurable - when a call that promises durability returns *)
(*               no older image can come back                        (C03) *)
(* Calls that promise nothing (create until it returns, the harness's own  *)
(* file juggling) carry chk = FALSE.                                       *)
(***************************************************************************)
EXTENDS Mv2Disk, Json, IOUtils

Rec == ndJsonDeserialize(IOEnv.TRACE)
CONSTANT Debug
VARIABLE l
tvars == <<vars, l>>

TIno == 1..250
TNames == {"main", "stage", "stage2", "stage3"}

Chk(nm, cond) == IF cond THEN TRUE ELSE (Debug /\ PrintT(<<"MISMATCH", l, nm>>))
Ev == Rec[l]
IsEvent(e) == l <= Len(Rec) /\ Ev.ev = e /\ l' = l + 1
SeqRange(s) == {s[k] : k \in 1..Len(s)}

\* recs = <<-7>>: an image whose recovery class was not computed because it can never be seen under the name (a staging
\* file that is synced before its rename).  Meeting one in a check is an error of the machinery, not of the code.
ImgOf(e) == IF e.recs = <<-7>> THEN [toc |-> -7, pend |-> 0, recs |-> {}]
            ELSE [toc |-> -2, pend |-> 0, recs |-> SeqRange(e.recs)]
KnownAll == /\ \A m \in PowerImgs' : m.toc # -7
            /\ (dir'["main"] # NoIno => vol'[dir'["main"]].toc # -7)

Judged == IF ~KnownAll THEN Chk("disk.tool", FALSE)
          ELSE /\ Chk("disk.proc", Ev.chk => ProcSafe')
               /\ Chk("disk.power", Ev.chk => PowerSafe')

TraceInit == /\ l = 1
             /\ dir = [n \in TNames |-> NoIno] /\ ddir = dir
             /\ vol = [i \in TIno |-> Blank] /\ hist = [i \in TIno |-> {Blank}]
             /\ lo = 0 /\ dlo = 0 /\ hi = 0
             /\ h = NoIno /\ mem = 0 /\ pc = Idle /\ stg = NoIno /\ crashes = 0 /\ orphan = FALSE

TReset == /\ IsEvent("reset")
          /\ dir' = [n \in TNames |-> NoIno] /\ ddir' = dir'
          /\ vol' = [i \in TIno |-> Blank] /\ hist' = [i \in TIno |-> {Blank}]
          /\ lo' = 0 /\ dlo' = 0 /\ hi' = 0
          /\ UNCHANGED wvars

TBegin == /\ IsEvent("begin")
          /\ hi' = Ev.c
          /\ UNCHANGED <<fsvars, lo, dlo, wvars>>

TEnd == /\ IsEvent("end")
        /\ lo' = Ev.c /\ hi' = Ev.c
        /\ dlo' = IF Ev.dura THEN Ev.c ELSE dlo
        /\ UNCHANGED <<fsvars, wvars>>
        /\ Chk("disk.proc", Ev.chk => ProcSafe')
        /\ Chk("disk.ack", (Ev.chk /\ Ev.dura) => AckDurable')

TCreate  == IsEvent("create")  /\ FsCreate(Ev.name, Ev.ino)  /\ UNCHANGED <<ghost, wvars>> /\ Judged
TWrite   == IsEvent("write")   /\ FsWrite(Ev.ino, ImgOf(Ev)) /\ UNCHANGED <<ghost, wvars>> /\ Judged
TFsync   == IsEvent("fsync")   /\ FsFsync(Ev.ino)            /\ UNCHANGED <<ghost, wvars>> /\ Judged
TRename  == IsEvent("rename")  /\ FsRename(Ev.name, Ev.to)   /\ UNCHANGED <<ghost, wvars>> /\ Judged
TUnlink  == IsEvent("unlink")  /\ FsUnlink(Ev.name)          /\ UNCHANGED <<ghost, wvars>> /\ Judged
TDirSync == IsEvent("dirsync") /\ FsDirSync                  /\ UNCHANGED <<ghost, wvars>> /\ Judged

\* the harness's own juggling (abandon: the handle is forgotten, the file re-created) is not under test:
\* what it leaves counts as durable
TSettle == /\ IsEvent("settle")
           /\ ddir' = dir /\ hist' = [i \in TIno |-> {vol[i]}]
           /\ UNCHANGED <<dir, vol, ghost, wvars>>

TraceNext == TReset \/ TBegin \/ TEnd \/ TCreate \/ TWrite \/ TFsync \/ TRename \/ TUnlink \/ TDirSync \/ TSettle
TraceSpec == TraceInit /\ [][TraceNext]_tvars

Accept == LET d == TLCGet("stats").diameter IN
          /\ PrintT(<<"TRACE-RESULT", d - 1, Len(Rec)>>)
          /\ (d - 1 = Len(Rec) => PrintT("TRACE-ACCEPTED"))
=============================================================================
