---------------------------- MODULE MC_WalRing ----------------------------
(* Model-checking / edge-dumping instance of WalRing.                      *)
EXTENDS WalRing, Json, TLCExt

\* compact integer encoding of a cell, for state keys in the edge dump
Enc(c) == IF c.t = "Z" THEN 0
          ELSE IF c.t = "H" THEN 10000 + c.s * 1000 + c.l * 10 + c.k
          ELSE 20000 + c.s * 1000 + c.k
Key(m, a, b, c, d, e) == ToString(<<[i \in 1..R |-> Enc(m[i-1])], a, b, c, d, e>>)

\* refinement: the cell-level model implements the cursor-level one
WA == INSTANCE WalAbs WITH rsz <- R, chain <- Scan(mem).recs
RefinesWalAbs == WA!ASpec(R)

View == core    \* hide the observation variable: it adds no behaviour

\* one line per explored transition: source key, call, result, predicted
\* observable state after the call (what stats() must report), target key
EdgeDump ==
  PrintT(<<"EDGE", ToJson([
      s   |-> Key(mem, wh, pb, seq, cseq, apc),
      t   |-> Key(mem', wh', pb', seq', cseq', apc'),
      op  |-> last'.op, arg |-> last'.arg, res |-> last'.res, recs |-> last'.recs,
      pb  |-> pb', seq |-> seq', apc |-> apc',
      due |-> (pb' * 4 >= 3 * R \/ apc' >= 1000)
  ])>>)
=============================================================================
