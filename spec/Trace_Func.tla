----------------------------- MODULE Trace_Func -----------------------------
(* impl -> spec for the transcribed algorithms: one ND-JSON line per case    *)
(* executed by `mvh func-run` on the real function; TLC evaluates the        *)
(* transcription (FooterScan, Adaptive, Snippet, QueryLang) on the same      *)
(* abstract input and requires the same output, plus the property's contract *)
(* on the real output.                                                       *)
EXTENDS Integers, Sequences, FiniteSets, TLC, Json, IOUtils

Rec == ndJsonDeserialize(IOEnv.TRACE)
CONSTANT Debug
VARIABLE l

FS == INSTANCE FooterScan WITH MaxTok <- 0, Big <- 1000000, toks <- <<>>
AD == INSTANCE Adaptive WITH Den <- 8, MaxLen <- 0, MaxScore <- 0, Thresholds <- {}, MinResults <- {}, c <- 0
SN == INSTANCE Snippet WITH Gap <- 20, MaxChars <- 0, Windows <- {}, Maxes <- {}, OccStarts <- {}, OccLens <- {}, MaxOcc <- 0, c <- 0
CP == INSTANCE Capsule WITH MaxChunks <- 0, c <- 0
CK == INSTANCE ChunkPlan WITH MaxLen <- 0, Sizes <- {}, Slacks <- {}, c <- 0
CD == INSTANCE Codecs WITH U <- {}, MaxEntries <- 0, c <- 0
QL == INSTANCE QueryLang WITH MaxDepth <- 128, BaseAtoms <- {}, AstDepth <- 0, ast <- 0, expl <- FALSE

Chk(nm, cond) == IF cond THEN TRUE ELSE (Debug /\ PrintT(<<"MISMATCH", l, nm>>))
\* a difference from the transcription that the property does not forbid (e.g. a different but still valid
\* choice of slices, or a parser that rejects trailing tokens): reported as drift, not as a violation
DChk(nm, cond) == IF cond THEN TRUE ELSE PrintT(<<"DRIFT", l, nm>>)
Ev == Rec[l]
Has(r, f) == f \in DOMAIN r
NoPanic(o) == Chk("panic", ~Has(o, "panic"))

(* ------------------------------- C31 ------------------------------------ *)
FooterOk(i, o) ==
  LET cs == FS!Cells(i.toks)  p == FS!Scan(cs) IN
  /\ NoPanic(o)
  /\ ~Has(o, "panic") =>
       /\ Chk("footer.found", o.found = (p > 0))
       /\ Chk("footer.offset", o.cell = p /\ o.aligned)
       /\ Chk("footer.last_valid", p = FS!Naive(cs))
       /\ Chk("footer.toc", p > 0 => (o.toc_cell = p - FS!LenOf(cs, p) /\ o.described))

(* ------------------------------- C37 ------------------------------------ *)
AdaptiveOk(i, o) ==
  LET s == i.scores  n == Len(s) IN
  /\ NoPanic(o)
  /\ ~Has(o, "panic") =>
       /\ Chk("adaptive.bounds", AD!Bounds(n, i.min_results, o.cut))
       /\ (i.strategy \in {"abs", "rel"} =>
             /\ Chk("adaptive.cutoff", o.cut = AD!Cutoff(s, i.normalize, i.strategy, i.thr, i.min_results))
             /\ Chk("adaptive.threshold", AD!ThresholdContract(s, i.normalize, i.strategy, i.thr, i.min_results, o.cut)))
       /\ Chk("adaptive.norm", /\ Len(o.norm) = n /\ o.norm_exact
                               /\ \A k \in 1..n : /\ o.norm[k] >= 0 /\ o.norm[k] <= 1048576
                                                  /\ o.norm[k] * AD!NormDen(s) = AD!NormNum(s, k) * 1048576
                               /\ (n > 0 => \E k \in 1..n : s[k] = AD!SeqMax(s) /\ o.norm[k] = 1048576))

(* ------------------------------- C35 ------------------------------------ *)
SnippetOk(i, o) ==
  /\ NoPanic(o)
  /\ ~Has(o, "panic") =>
       /\ Chk("snippet.len", o.len = SN!TLen(i.text))
       /\ DChk("snippet.slices", o.slices = SN!Slices(i.text, i.occ, i.window, i.max))
       /\ Chk("snippet.contract", SN!Contract(i.text, o.slices, i.max) /\ o.sliceable)

(* ------------------------------- C32 ------------------------------------ *)
DocSet(d) == {d[k] : k \in 1..Len(d)}
QueryOk(i, o) ==
  IF Has(i, "nest")
    THEN \* deep nesting: "(" x n a ")" x n   or   "NOT " x n a
      /\ Chk("query.total", o.res \in {"ok", "InvalidQuery"})
      \* where exactly the parser draws the line (128 levels as built) is its own business: drift only.  What C32 needs is
      \* covered by query.total: however deep, the answer is ok or InvalidQuery, never a crash or a hang
      /\ DChk("query.depth", (o.res = "ok") = (i.nest <= 128))
      /\ (o.res = "ok" =>
            Chk("query.eval", \A k \in 1..Len(i.docs) :
                  o.matches[k] = (IF i.kind = "not" /\ i.nest % 2 = 1 THEN "a" \notin DocSet(i.docs[k]) ELSE "a" \in DocSet(i.docs[k]))))
    ELSE LET r == QL!Parse(i.toks) IN
      /\ Chk("query.total", o.res \in {"ok", "InvalidQuery"})
      /\ IF Has(i, "ast")
           THEN \* a well-formed query printed from a reference AST: must parse and mean what the AST means
             /\ Chk("query.wellformed", o.res = "ok")
             /\ (o.res = "ok" => Chk("query.meaning", /\ Len(o.matches) = Len(i.docs)
                                                       /\ \A k \in 1..Len(i.docs) : o.matches[k] = QL!Eval(i.ast, DocSet(i.docs[k]))))
             /\ DChk("query.transcription", r.ok /\ r.p = Len(i.toks) + 1)
           ELSE \* arbitrary token strings: only totality is required; outcome and meaning are compared with the transcription as drift
             /\ DChk("query.outcome", (o.res = "ok") = r.ok)
             /\ (o.res = "ok" /\ r.ok =>
                   DChk("query.eval", /\ Len(o.matches) = Len(i.docs)
                                      /\ \A k \in 1..Len(i.docs) : o.matches[k] = QL!Eval(r.e, DocSet(i.docs[k]))))

(* ------------------------------- C29 ------------------------------------ *)
CapsuleOk(i, o) ==
  IF o.skipped THEN TRUE
  ELSE /\ Chk("capsule.panic", o.res # "panic")
       /\ Chk("capsule.roundtrip", ~o.modified => (o.ok /\ o.same))                    \* unlock(lock(f)) = f
       /\ Chk("capsule.wrong_plaintext", o.wrote => o.same)                             \* never writes a plaintext that differs from f
       /\ Chk("capsule.tamper_accepted", o.modified => ~o.ok)                           \* any modification makes unlock fail
       /\ DChk("capsule.model", o.ok = CP!Unlock(CP!CapOf(o.nchunks, i.tamper), o.nchunks)[1])

(* ------------------------------- C34 ------------------------------------ *)
\* mode C > 0: the naive planner on the text as given, chunk size C (slack = max(C / 5, 32) as in the code);
\* mode C = 0: plan_text_chunks (normalisation, threshold 2400, chunk size 1200) - TLC is given the classes of the normalised text;
\* structured documents: the statement's second sentence, evaluated by the harness on the real chunks (booleans)
Max2C(a, b) == IF a > b THEN a ELSE b
ChunkOk(i, o) ==
  /\ NoPanic(o)
  /\ ~Has(o, "panic") =>
     IF Has(i, "doc")
       THEN o.none \/ /\ Chk("chunk.structured.nonempty", o.no_empty /\ o.nchunks > 1 /\ o.nranges = o.nchunks /\ o.ranges_in_text)
                       /\ Chk("chunk.structured.lines", o.lines_covered)
       ELSE LET t == IF i.C > 0 THEN CK!Expand(i.text) ELSE CK!Expand(o.norm)
                C == IF i.C > 0 THEN i.C ELSE 1200
                S == Max2C(C \div 5, 32)
                want == CK!Plan(t, C, S) IN
            /\ Chk("chunk.total", o.total = Len(t))
            /\ DChk("chunk.threshold", (i.C = 0 /\ Len(t) >= 2400) => ~o.none)       \* where the threshold lies is the planner's business: drift
            /\ (~o.none => /\ Chk("chunk.partition", CK!Partition(o.ranges, Len(t)))
                            /\ Chk("chunk.concat", i.C = 0 => (o.concat_ok /\ o.slices_ok)))
            /\ DChk("chunk.model", IF o.none THEN (want = <<>> \/ (i.C = 0 /\ Len(t) < 2400)) ELSE o.ranges = want)

(* ------------------------------- C30 ------------------------------------ *)
\* The contract is C30's own statement (Chk); equality with the transcription beyond it is drift (DChk): a decoder that
\* starts rejecting more, or an encoder that refuses more values, does not break the property.
CodecOk(i, o) ==
  /\ NoPanic(o)
  /\ ~Has(o, "panic") =>
     LET untouched == i.m.k = "none" IN
     CASE i.codec = "header" ->
            LET want == CD!HdrOutcome(i) IN
            /\ Chk("codec.header.roundtrip", (untouched /\ CD!HdrValid(i.v)) => (o.enc /\ o.dec = CD!Acc(i.v)))
            /\ Chk("codec.header.guard", (o.enc /\ i.m.k \in {"magic", "ver", "spec"}) => ~o.dec.ok)
            /\ Chk("codec.header.invalid", (o.enc /\ o.dec.ok) => (CD!HdrValid(o.dec.v) /\ o.guards))
            /\ Chk("codec.header.faithful", (o.enc /\ o.dec.ok) => o.dec.v = CD!HdrMutate(CD!HdrImage(i.v), i.m).v)
            /\ DChk("codec.header.model", [enc |-> o.enc, dec |-> o.dec] = want)
       [] i.codec = "footer" ->
            LET want == CD!FtOutcome(i) IN
            /\ Chk("codec.footer.roundtrip", untouched => o.dec = CD!Acc(i.v))
            /\ Chk("codec.footer.guard", i.m.k \in {"magic", "size"} => ~o.dec.ok)
            /\ Chk("codec.footer.faithful", o.dec.ok => (o.size /\ o.dec.v = CD!FtMutate(CD!FtImage(i.v), i.m).v))
            /\ Chk("codec.footer.hash", o.hash_matches = (o.dec.ok /\ o.dec.v.h = i.toc))
            /\ DChk("codec.footer.model", [dec |-> o.dec, hash_matches |-> o.hash_matches] = want)
       [] i.codec = "toc" ->
            LET want == CD!TocOutcome(i) IN
            /\ Chk("codec.toc.roundtrip", untouched => (o.dec /\ o.same /\ o.verify = i.v.ck /\ o.frames = i.v.nf))
            /\ Chk("codec.toc.guard", i.m.k \in {"trail", "cut"} => ~o.dec)
            /\ Chk("codec.toc.checksum", i.m.k \in {"flip", "flipck"} => ~o.verify)
            /\ Chk("codec.toc.different", (o.dec /\ i.m.k \in {"flip", "flipck"}) => ~o.same)
            /\ DChk("codec.toc.model", [dec |-> o.dec, same |-> o.same, verify |-> o.verify] = want)
       [] i.codec = "time" ->
            LET want == CD!TiOutcome(i) IN
            /\ Chk("codec.time.roundtrip", untouched => (o.dec = CD!Acc(CD!Sort(i.v.es)) /\ o.checksum_ok))
            /\ Chk("codec.time.guard", i.m.k \in {"magic", "count", "length"} => ~o.dec.ok)
            /\ Chk("codec.time.sorted", o.dec.ok => CD!IsSorted(o.dec.v))
            /\ Chk("codec.time.checksum", o.checksum_ok => (o.dec.ok /\ o.dec.v = CD!Sort(i.v.es)))
            /\ Chk("codec.time.faithful", o.dec.ok => LET r == CD!TiRead(CD!TiMutate(CD!TiImage(i.v.es), i.m)) IN (r.ok => o.dec.v = r.v))
            /\ DChk("codec.time.model", [dec |-> o.dec, checksum_ok |-> o.checksum_ok] = want)
       [] OTHER -> Chk("codec.unknown", FALSE)

Init == l = 1
Next == /\ l <= Len(Rec) /\ l' = l + 1
        /\ CASE Ev.ev = "footer" -> FooterOk(Ev.in, Ev.out)
             [] Ev.ev = "adaptive" -> AdaptiveOk(Ev.in, Ev.out)
             [] Ev.ev = "snippet" -> SnippetOk(Ev.in, Ev.out)
             [] Ev.ev = "query" -> QueryOk(Ev.in, Ev.out)
             [] Ev.ev = "capsule" -> CapsuleOk(Ev.in, Ev.out)
             [] Ev.ev = "codec" -> CodecOk(Ev.in, Ev.out)
             [] Ev.ev = "chunk" -> ChunkOk(Ev.in, Ev.out)
             [] OTHER -> FALSE
TraceSpec == Init /\ [][Next]_l

Accept == LET d == TLCGet("stats").diameter IN
          /\ PrintT(<<"TRACE-RESULT", d - 1, Len(Rec)>>)
          /\ (d - 1 = Len(Rec) => PrintT("TRACE-ACCEPTED"))
=============================================================================
