---------------------------- MODULE MC_Mv2Core ----------------------------
(* Model-checking and scenario-generating instance of Mv2Core: small log    *)
(* region (R0 units), abstract record sizes 1..3 units, two URIs, so that   *)
(* auto-commit at 75 %, wrap after checkpoint, "full" by wrapping and       *)
(* region growth are all reached within a few steps.                        *)
EXTENDS Mv2Core, Json

CONSTANTS MaxFrames, MaxSteps, Uris

VARIABLES hist      \* the calls made so far, as scenario records (generator output)
mvars == <<vars, hist>>

Op(r) == hist' = Append(hist, r)

Sizes == {1, 2, 3}
LexSizes == {0, 1}

MCInit == Init /\ hist = <<>>

MCNext ==
  \/ /\ exists = "no" /\ Create /\ Op([op |-> "create"])
  \/ \E lx \in LexSizes : Commit(lx, cpe) /\ Op([op |-> "commit"])
  \/ \E lx \in LexSizes : OpenRW(lx, cpe) /\ Op([op |-> "open"])
  \/ OpenRO /\ Op([op |-> "open_ro"])
  \/ \E lx \in LexSizes : Close(lx, cpe) /\ Op([op |-> "close"])
  \/ Abandon /\ Op([op |-> "abandon"])
  \/ \E u \in Uris, sz \in Sizes, n \in {0, 2}, lx \in LexSizes, e \in {0, 1} :
       /\ Len(frames) + pins < MaxFrames
       /\ Put(u, "doc", Len(hist), (Len(hist) + 1) * 1000, e, n, <<>>, 0,
              IF n = 0 THEN <<sz>> ELSE <<1, sz, 1>>, lx, cpe)
       /\ Op([op |-> "put", uri |-> u, units |-> sz, chunks |-> n, emb |-> e, pay |-> Len(hist) + 1, ts |-> Len(hist)])
  \/ \E f \in 0..(MaxFrames - 1), hp \in BOOLEAN, lx \in LexSizes :
       /\ Len(frames) + pins < MaxFrames
       /\ Update(f, hp, (Len(hist) + 1) * 1000, 0, 0, 0, <<1>>, lx, cpe)
       /\ Op([op |-> "update", frame |-> f, haspay |-> hp, pay |-> Len(hist) + 1])
  \/ \E f \in 0..(MaxFrames - 1), lx \in LexSizes :
       Delete(f, 1, lx, cpe) /\ Op([op |-> "delete", frame |-> f])
  \/ \E a \in LexSizes, b \in LexSizes : Vacuum(a, b, cpe) /\ Op([op |-> "vacuum"])
  \/ \E s \in 1..3 : ApplyTicket(s, 0) /\ Op([op |-> "ticket", seq |-> s])

MCSpec == MCInit /\ [][MCNext]_mvars

Bound == Len(hist) <= MaxSteps
View == <<exists, frames, pend, wR, wh, wpb, wapc, wseq - wcseq, hdl, snap, dirty, pins, noAuto, ticket>>

(* ----- invariants of the intended design / as-built model ----- *)
InsCount(recs) == Cardinality({i \in 1..Len(recs) : recs[i].k = "ins"})

\* C06: next_frame_id() = number of committed frames + pending inserts, i.e. exactly the id
\* the next put will receive when the pending window is applied
NextIdPredicts == hdl = "rw" => pins = InsCount(pend)

\* C06: applying the pending window appends frames densely in record order and never
\* renumbers a committed frame
ApplyIsAppendOnly ==
  LET fs == Apply(frames, pend) IN
  /\ Len(fs) = Len(frames) + InsCount(pend)
  /\ \A i \in 1..Len(frames) : fs[i].uri = frames[i].uri /\ fs[i].pay = frames[i].pay /\ fs[i].ts = frames[i].ts
                               /\ fs[i].role = frames[i].role /\ fs[i].parent = frames[i].parent

\* C01: a successful commit leaves nothing behind; acknowledged work is either applied or pending
NothingLostOnCommit == (last.op = "commit" /\ last.res = "ok") => (pend = <<>> /\ acked = <<>>)

\* C08: at most one active version per supersede chain
OneActiveSuccessor ==
  \A i \in 1..Len(frames) :
    Cardinality({j \in 1..Len(frames) : frames[j].sup = i - 1 /\ frames[j].st = "active"}) <= 1

\* C08: frame_by_uri returns an active frame whenever one exists with that URI, and the newest one
UriNewest ==
  \A u \in Uris : LET id == ByUri(frames, u) IN
    id # NoFrame => (\A j \in ActiveIds(frames) : frames[j + 1].uri = u => (frames[id + 1].st = "active" /\ j <= id))

\* C25: accepted ticket sequence numbers strictly increase (unbind_memory starts over; open shows the file's copy)
TicketMonotone == [][ /\ (ticket'.seq >= ticket.seq \/ last'.op \in {"unbind", "open", "open_ro"})
                      /\ (last'.op \in {"ticket", "signed_ticket", "bind"} /\ last'.res = "ok" => ticket'.seq > ticket.seq) ]_mvars

(* ------------- tickets, bindings and signed tickets (C25): their own small instance ------------- *)
Mems == {1, 2}
TkNext ==
  \/ /\ exists = "no" /\ Create /\ Op([op |-> "create"])
  \/ Commit(0, cpe) /\ Op([op |-> "commit"])
  \/ OpenRW(0, cpe) /\ Op([op |-> "open"])
  \/ OpenRO /\ Op([op |-> "open_ro"])
  \/ Close(0, cpe) /\ Op([op |-> "close"])
  \/ Abandon /\ Op([op |-> "abandon"])
  \/ \E s \in 1..3 : ApplyTicket(s, 0) /\ Op([op |-> "ticket", seq |-> s])
  \/ \E s \in 1..3, m \in Mems, a \in BOOLEAN : ApplySigned(s, 0, m, a) /\ Op([op |-> "signed_ticket", seq |-> s, mem |-> m, authentic |-> a])
  \/ \E m \in Mems : BindOnly(m) /\ Op([op |-> "bind_only", mem |-> m])
  \/ \E m \in Mems, s \in 1..3 : Bind(m, s, 0) /\ Op([op |-> "bind", mem |-> m, seq |-> s])
  \/ Unbind /\ Op([op |-> "unbind"])
TkSpec == MCInit /\ [][TkNext]_mvars

\* C25: a signed ticket is accepted only when authentic, naming the bound memory, and newer; then the memory is verified
SignedOnlyAuthentic ==
  [][ (last'.op = "signed_ticket" /\ last'.res = "ok") =>
        LET o == hist'[Len(hist')] IN
        /\ o.authentic /\ ticket.mem # 0 /\ o.mem = ticket.mem /\ o.seq > ticket.seq
        /\ ticket'.ver /\ ticket'.seq = o.seq /\ ticket'.mem = ticket.mem ]_mvars
\* C25: the verified mark is only ever set by an accepted signed ticket, and cleared by an unsigned one
VerifiedOnlyBySigned ==
  [][ /\ (ticket'.ver /\ ~ticket.ver => last'.op \in {"signed_ticket", "open", "open_ro"})
      /\ (last'.op \in {"ticket", "bind"} /\ last'.res = "ok" => ~ticket'.ver) ]_mvars
\* verified implies bound, in the handle and in the file
VerifiedIsBound == (ticket.ver => ticket.mem # 0) /\ (ticket.d.ver => ticket.d.mem # 0)
\* C25 across reopen: what open shows is what the last TOC write stored
ReopenShowsStored == [][ last'.op \in {"open", "open_ro"} => Live(ticket') = ticket.d ]_mvars

\* C01: a rejected call changes nothing
RejectedUnchanged == [][ (last'.res \notin {"ok"}) => UNCHANGED <<frames, pend, wal, ticket, hdl>> ]_mvars

\* generator: print each behaviour of length MaxSteps once (used with -simulate)
EmitScenario == Len(hist) < MaxSteps \/ PrintT(<<"SCENARIO", ToJson(hist)>>)
=============================================================================
