------------------------------ MODULE Adaptive ------------------------------
(***************************************************************************)
(* find_adaptive_cutoff / normalize_scores (src/types/adaptive.rs).        *)
(*                                                                         *)
(* Scores and thresholds are integers in units of 1/Den (dyadic rationals, *)
(* exactly representable in f32).  Normalisation divides by the range      *)
(* max - min; comparisons of normalised scores are done by cross-          *)
(* multiplication, so the model is exact.  The absolute and relative       *)
(* strategies are transcribed; the cliff, elbow and combined strategies    *)
(* involve division / sqrt of arbitrary values and are judged only by the  *)
(* bounds contract, as the property states.                                *)
(***************************************************************************)
EXTENDS Integers, Sequences, FiniteSets, TLC

CONSTANTS Den,       \* scores are s / Den
          MaxLen, MaxScore, Thresholds, MinResults

Min2(a, b) == IF a < b THEN a ELSE b
SeqMax(s) == CHOOSE x \in {s[i] : i \in 1..Len(s)} : \A i \in 1..Len(s) : s[i] <= x
SeqMin(s) == CHOOSE x \in {s[i] : i \in 1..Len(s)} : \A i \in 1..Len(s) : x <= s[i]

\* normalised score i as a fraction num/den (den > 0); all equal => 1/1
NormNum(s, i) == IF SeqMax(s) = SeqMin(s) THEN 1 ELSE s[i] - SeqMin(s)
NormDen(s) == IF SeqMax(s) = SeqMin(s) THEN 1 ELSE SeqMax(s) - SeqMin(s)

\* the score the strategy looks at, as a fraction over a common denominator D(s, norm):
\*   normalised:  NormNum / NormDen        raw:  s[i] / Den
VNum(s, norm, i) == IF norm THEN NormNum(s, i) ELSE s[i]
VDen(s, norm) == IF norm THEN NormDen(s) ELSE Den

\* find_absolute_cutoff(values, threshold = tn/td, min_results): first i >= min_results (0-based)
\* with value < threshold; else n
RECURSIVE FirstBelow(_, _, _, _, _, _)
FirstBelow(s, norm, tn, td, mr, i) ==      \* i is 0-based
  IF i >= Len(s) THEN Len(s)
  ELSE IF i >= mr /\ VNum(s, norm, i + 1) * td < tn * VDen(s, norm) THEN i
  ELSE FirstBelow(s, norm, tn, td, mr, i + 1)

\* threshold of the strategy as a fraction tn/td
\*   abs: thr / Den        rel: value[0] * (thr / Den)
ThrNum(s, norm, strat, thr) == IF strat = "abs" THEN thr ELSE VNum(s, norm, 1) * thr
ThrDen(s, norm, strat) == IF strat = "abs" THEN Den ELSE VDen(s, norm) * Den

Cutoff(s, norm, strat, thr, mr) ==
  IF Len(s) = 0 THEN 0
  ELSE IF Len(s) <= mr THEN Len(s)
  ELSE FirstBelow(s, norm, ThrNum(s, norm, strat, thr), ThrDen(s, norm, strat), mr, 0)

(* ------------------------------ the contract ---------------------------- *)
\* C37 bounds: min(min_results, n) <= cut <= n
Bounds(n, mr, cut) == Min2(mr, n) <= cut /\ cut <= n

\* C37 threshold contract for abs / rel: every kept result beyond the first min_results is at or
\* above the threshold, and the result just after the cut-off (if any) is below it
ThresholdContract(s, norm, strat, thr, mr, cut) ==
  LET tn == ThrNum(s, norm, strat, thr)  td == ThrDen(s, norm, strat) IN
  Len(s) > mr =>
    /\ \A i \in (mr + 1)..cut : VNum(s, norm, i) * td >= tn * VDen(s, norm)
    /\ (cut < Len(s) => VNum(s, norm, cut + 1) * td < tn * VDen(s, norm))

\* C37 normalisation: values in [0, 1], the maximum mapped to 1
NormContract(s) ==
  /\ \A i \in 1..Len(s) : 0 <= NormNum(s, i) /\ NormNum(s, i) <= NormDen(s)
  /\ (Len(s) > 0 => \E i \in 1..Len(s) : s[i] = SeqMax(s) /\ NormNum(s, i) = NormDen(s))

(* ------------------------------ enumeration ----------------------------- *)
VARIABLE c     \* one case: [s, norm, strat, thr, mr]
Cases == [s : UNION {[1..n -> (-2)..MaxScore] : n \in 0..MaxLen}, norm : BOOLEAN, strat : {"abs", "rel"},
          thr : Thresholds, mr : MinResults]
Init == c \in Cases
Next == UNCHANGED c
Spec == Init /\ [][Next]_c

ContractHolds ==
  LET cut == Cutoff(c.s, c.norm, c.strat, c.thr, c.mr) IN
  /\ Bounds(Len(c.s), c.mr, cut)
  /\ ThresholdContract(c.s, c.norm, c.strat, c.thr, c.mr, cut)
  /\ NormContract(c.s)
=============================================================================
