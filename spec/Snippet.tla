------------------------------- MODULE Snippet -------------------------------
(***************************************************************************)
(* compute_snippet_slices (src/lex.rs) transcribed, over texts made of     *)
(* characters of width 1..4 bytes and classes letter / sentence terminator *)
(* / newline / space, with byte offsets exactly as the code computes them. *)
(* The contract of property C35 is stated on the result.                   *)
(***************************************************************************)
EXTENDS Integers, Sequences, FiniteSets, TLC

CONSTANT Gap      \* slices closer than this many bytes are merged (20 in the code; small in model checking so that
                  \* multi-slice results are reachable on short texts)

\* a text is a sequence of <<width, class>>; class in {"a", ".", "!", "n", "s", "w"}  ("w": multi-byte white space such as
\* U+00A0 / U+3000 - the code skips ASCII white space only, so it behaves like a letter)
W(ch) == ch[1]
Cls(ch) == ch[2]

RECURSIVE StartOf(_, _)
StartOf(t, i) == IF i <= 1 THEN 0 ELSE StartOf(t, i - 1) + W(t[i - 1])     \* byte offset of char i (1-based)
TLen(t) == StartOf(t, Len(t) + 1)
Bounds(t) == {StartOf(t, i) : i \in 1..(Len(t) + 1)}
Min2(a, b) == IF a < b THEN a ELSE b
Max2(a, b) == IF a > b THEN a ELSE b

PrevB(t, idx) == LET i == Min2(idx, TLen(t)) IN CHOOSE b \in Bounds(t) : b <= i /\ \A c \in Bounds(t) : c <= i => c <= b
NextB(t, idx) == LET i == Min2(idx, TLen(t)) IN CHOOSE b \in Bounds(t) : b >= i /\ \A c \in Bounds(t) : c >= i => c >= b

\* index (1-based) of the char starting at boundary b < TLen
CharAt(t, b) == CHOOSE i \in 1..Len(t) : StartOf(t, i) = b

\* advance_boundary(content, start, window) for a start on a char boundary
AdvanceBoundary(t, start, window) ==
  IF start >= TLen(t) THEN TLen(t)
  ELSE LET i0 == CharAt(t, start)
           nchars == Len(t) - i0 + 1 IN
       IF nchars > window THEN StartOf(t, i0 + window) ELSE TLen(t)

IsTerm(c) == c \in {".", "!"}
IsWs(c) == c \in {"s", "n"}

\* skip ASCII whitespace bytes from pos
RECURSIVE SkipWs(_, _)
SkipWs(t, pos) == IF pos < TLen(t) /\ pos \in Bounds(t) /\ IsWs(Cls(t[CharAt(t, pos)])) THEN SkipWs(t, pos + 1) ELSE pos

\* sentence_start_before: -1 = None
SentenceStartBefore(t, idx0) ==
  IF idx0 = 0 THEN 0
  ELSE LET idx == PrevB(t, Min2(idx0, TLen(t)))
           cands == {StartOf(t, i) + W(t[i]) : i \in {k \in 1..Len(t) : StartOf(t, k) < idx /\ (IsTerm(Cls(t[k])) \/ Cls(t[k]) = "n")}} IN
       IF cands = {} THEN -1
       ELSE LET pos == CHOOSE p \in cands : \A q \in cands : q <= p IN
            PrevB(t, SkipWs(t, NextB(t, pos)))

\* sentence_end_after: -1 = None
SentenceEndAfter(t, idx0) ==
  IF idx0 >= TLen(t) THEN TLen(t)
  ELSE LET idx == PrevB(t, idx0)
           hits == {i \in 1..Len(t) : StartOf(t, i) >= idx /\ (IsTerm(Cls(t[i])) \/ Cls(t[i]) = "n")} IN
       IF hits = {} THEN -1
       ELSE LET i == CHOOSE k \in hits : \A m \in hits : k <= m IN
            IF IsTerm(Cls(t[i])) THEN NextB(t, StartOf(t, i) + W(t[i])) ELSE StartOf(t, i)

\* the merge loop over occurrences; acc = merged so far
RECURSIVE Merge(_, _, _, _, _)
Merge(t, occ, window, maxs, acc) ==
  IF occ = <<>> THEN acc
  ELSE LET s == Head(occ)[1]  e == Head(occ)[2]
           s0 == Max2(s - window \div 2, 0)                       \* saturating_sub
           e0 == Min2(e + window \div 2, TLen(t))
           ss == SentenceStartBefore(t, s0)
           se == SentenceEndAfter(t, e0)
           s1 == PrevB(t, IF ss >= 0 THEN ss ELSE s0)
           e1 == NextB(t, IF se >= 0 THEN se ELSE e0) IN
       IF e1 <= s1 THEN Merge(t, Tail(occ), window, maxs, acc)
       ELSE IF acc # <<>> /\ s1 <= acc[Len(acc)][2] + Gap
         THEN Merge(t, Tail(occ), window, maxs, [acc EXCEPT ![Len(acc)] = <<acc[Len(acc)][1], Max2(acc[Len(acc)][2], e1)>>])
       ELSE LET acc1 == Append(acc, <<Min2(s1, TLen(t)), Min2(e1, TLen(t))>>) IN
            IF Len(acc1) >= maxs THEN acc1 ELSE Merge(t, Tail(occ), window, maxs, acc1)

Slices(t, occ, window, maxs) ==
  IF TLen(t) = 0 \/ maxs = 0 THEN <<>>
  ELSE IF occ = <<>> THEN <<<<0, AdvanceBoundary(t, 0, Max2(window, 1))>>>>
  ELSE LET m == Merge(t, occ, window, maxs, <<>>) IN
       IF m = <<>> THEN <<<<0, AdvanceBoundary(t, 0, Max2(window, 1))>>>> ELSE m

(* ------------------------------- contract ------------------------------- *)
\* C35: non-empty byte ranges inside the text, on character boundaries, strictly increasing,
\* non-overlapping, at most `maxs` of them
Contract(t, r, maxs) ==
  /\ Len(r) <= maxs
  /\ \A i \in 1..Len(r) : /\ r[i][1] < r[i][2] /\ r[i][2] <= TLen(t) /\ r[i][1] >= 0
                          /\ r[i][1] \in Bounds(t) /\ r[i][2] \in Bounds(t)
  /\ \A i \in 1..(Len(r) - 1) : r[i][2] <= r[i + 1][1]

(* ------------------------------ enumeration ----------------------------- *)
CONSTANTS MaxChars, Windows, Maxes, OccStarts, OccLens, MaxOcc
VARIABLE c
Alphabet == {<<1, "a">>, <<2, "a">>, <<4, "a">>, <<1, ".">>, <<1, "n">>, <<1, "s">>, <<2, "w">>}
Texts == UNION {[1..n -> Alphabet] : n \in 0..MaxChars}
Occs == {<<s, s + d>> : s \in OccStarts, d \in OccLens}
OccLists == UNION {[1..n -> Occs] : n \in 0..MaxOcc}
Init == c \in [t : Texts, occ : OccLists, w : Windows, m : Maxes]
Next == UNCHANGED c
Spec == Init /\ [][Next]_c

ContractHolds == Contract(c.t, Slices(c.t, c.occ, c.w, c.m), c.m)
=============================================================================
