---------------------------- MODULE Trace_WalAbs ----------------------------
(* impl -> spec: validates an ND-JSON recording of calls on the real        *)
(* EmbeddedWal (harness `mvh walring-trace`) against WalAbs.  Every event   *)
(* carries the call, its argument, its result and the numbers stats()       *)
(* reported afterwards; the write head and the chain are not logged and are *)
(* determined by the specification.                                         *)
EXTENDS WalAbs, Json, IOUtils, TLC

Rec == ndJsonDeserialize(IOEnv.TRACE)

VARIABLE l
tvars == <<avars, l>>

TraceInit == /\ l = 1 /\ AInit(0)

IsEvent(e) == l <= Len(Rec) /\ Rec[l].ev = e /\ l' = l + 1

Observed(e) == /\ last'.res = e.res
               /\ pb' = e.pb /\ seq' = e.seq /\ apc' = e.apc
               /\ Due' = e.due

TReset == /\ IsEvent("reset")
          /\ rsz' = Rec[l].R /\ chain' = <<>> /\ wh' = 0 /\ pb' = 0 /\ seq' = 0 /\ cseq' = 0 /\ apc' = 0
          /\ last' = AObs("init", 0, "ok", <<>>)

TAppend == /\ IsEvent("append") /\ AAppend(Rec[l].len) /\ Observed(Rec[l])
           /\ (Rec[l].res = "ok" => Rec[l].ret = seq')
TCheckpoint == IsEvent("checkpoint") /\ ACheckpoint /\ Observed(Rec[l])
TPending == /\ IsEvent("pending") /\ APending /\ Observed(Rec[l])
            /\ last'.recs = Rec[l].recs /\ Rec[l].pay_ok
TReopen == IsEvent("reopen") /\ AReopen /\ Observed(Rec[l])
TStats  == IsEvent("stats") /\ AStats /\ Observed(Rec[l])

TraceNext == TReset \/ TAppend \/ TCheckpoint \/ TPending \/ TReopen \/ TStats
TraceSpec == TraceInit /\ [][TraceNext]_tvars

\* intended-design invariants, evaluated on every state of the observed run
TPendingExact == pb = Sizes(Pend)
TSeqOrder == seq >= cseq

Accept == LET d == TLCGet("stats").diameter IN
          /\ PrintT(<<"TRACE-RESULT", d - 1, Len(Rec)>>)
          /\ (d - 1 = Len(Rec) => PrintT("TRACE-ACCEPTED"))
=============================================================================
