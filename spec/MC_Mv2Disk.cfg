SPECIFICATION Spec
CONSTANTS
  Ino <- MCIno
  Names <- MCNames
  MaxOps = 3
  MaxCrashes = 3
  MixedFaults = FALSE
  Defects = {}
INVARIANTS TypeOK ProcSafe PowerSafeMC RecoveryStable IdleDurable
CHECK_DEADLOCK FALSE
