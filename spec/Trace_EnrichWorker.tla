------------------------- MODULE Trace_EnrichWorker -------------------------
(* impl -> spec: recorded schedules of the real enrichment worker + foreground (mvh worker-run). *)
EXTENDS EnrichWorker, Json, IOUtils

Rec == ndJsonDeserialize(IOEnv.TRACE)
CONSTANT Debug
VARIABLE l
tvars == <<vars, l>>
Chk(nm, cond) == IF cond THEN TRUE ELSE (Debug /\ PrintT(<<"MISMATCH", l, nm>>))
Ev == Rec[l]
Has(r, f) == f \in DOMAIN r
IsEvent(e) == l <= Len(Rec) /\ Ev.ev = e /\ l' = l + 1

\* the snapshot taken under the mutex right after the critical section
Observed(o) ==
  /\ Chk("queue", o.queue = queue')
  /\ Chk("count", Len(o.frames) = nframes')                                       \* no acknowledged frame lost (with pending)
  /\ Chk("pending", o.pending = npend')
  /\ Chk("frames", Len(o.frames) = nframes' =>
        \A i \in 1..nframes' : /\ o.frames[i][1] = i - 1
                               /\ o.frames[i][2] = (IF st'[i] = "A" THEN "Active" ELSE "Deleted")
                               /\ o.frames[i][3] = (IF enr'[i] = "E" THEN "Enriched" ELSE "Searchable"))
  \* the invariants of the property, evaluated on every observed state
  /\ Chk("inv.only_queued", OnlyQueuedChange')
  /\ Chk("inv.once", AtMostOnce' /\ StateExplained')
  /\ Chk("inv.drained", Drained')

TReset == /\ IsEvent("reset")
          /\ nframes' = 0 /\ npend' = 0 /\ penr' = <<>> /\ ptomb' = {} /\ enr' = <<>> /\ st' = <<>> /\ queue' = <<>>
          /\ wpc' = "idle" /\ wtask' = -1 /\ since' = 0 /\ stop' = FALSE /\ proc' = <<>> /\ everq' = {} /\ nputs' = 0
          /\ last' = Obs("-", "init", -1, "")

\* whether the put queued its frame is read from the logged queue (so that a diagnosis run follows one alternative)
TFgPut == /\ IsEvent("fg_put")
          /\ FgPut(\E i \in 1..Len(Ev.obs.queue) : Ev.obs.queue[i] = Ev.id)
          /\ Chk("put.id", Ev.id = last'.id) /\ Observed(Ev.obs)
TFgCommit == IsEvent("fg_commit") /\ FgCommit /\ Observed(Ev.obs)
TFgSearch == IsEvent("fg_search") /\ FgSearch /\ Observed(Ev.obs)
TFgDelete == /\ IsEvent("fg_delete")
             /\ IF Ev.obs.err = "ok" THEN FgDelete(Ev.id) ELSE FgSearch
             /\ Observed(Ev.obs)
TFgStop == IsEvent("fg_stop") /\ FgStop /\ Observed(Ev.obs)
TWGet == IsEvent("w_get") /\ WGetLate /\ Chk("w_get.task", Ev.id = last'.id) /\ Observed(Ev.obs)
TWProcess == /\ IsEvent("w_process") /\ WProcess /\ Chk("w_process.task", Ev.id = last'.id)
             /\ Chk("w_process.result", Ev.obs.err = last'.err) /\ Observed(Ev.obs)
TWComplete == IsEvent("w_complete") /\ WComplete /\ Chk("w_complete.task", Ev.id = last'.id) /\ Observed(Ev.obs)
TWCheckpoint == IsEvent("w_checkpoint") /\ WCheckpoint /\ Observed(Ev.obs)
TWStopped == IsEvent("w_stopped") /\ WExit
\* after stop_and_wait: the worker has stopped (C41), promptly; nothing changed meanwhile
TFinal == /\ IsEvent("final") /\ UNCHANGED vars
          /\ Chk("final.stopped", wpc = "stopped" /\ ~Ev.obs.stats.running /\ Ev.obs.stats.stop_ms < 5000)
          /\ Chk("final.queue", Ev.obs.queue = queue /\ Len(Ev.obs.frames) = nframes)
          /\ Chk("inv.drained", Drained)

TraceNext == TReset \/ TFgPut \/ TFgCommit \/ TFgSearch \/ TFgDelete \/ TFgStop
             \/ TWGet \/ TWProcess \/ TWComplete \/ TWCheckpoint \/ TWStopped \/ TFinal
TraceSpec == (l = 1 /\ Init) /\ [][TraceNext]_tvars
Accept == LET d == TLCGet("stats").diameter IN
          /\ PrintT(<<"TRACE-RESULT", d - 1, Len(Rec)>>)
          /\ (d - 1 = Len(Rec) => PrintT("TRACE-ACCEPTED"))
=============================================================================
