----------------------------- MODULE CardsTrack -----------------------------
(***************************************************************************)
(* Memory-card queries (src/types/memories_track.rs: get_current,           *)
(* get_at_time) transcribed: the cards of one entity:slot are sorted by     *)
(* effective time, newest first (stable sort), and                          *)
(* the first card that is not a retraction is returned.  The per-slot list  *)
(* is kept newest-inserted first (SlotIndex::insert puts the id at the      *)
(* front), so among equal effective times the card inserted last wins.      *)
(* A card: [id, entity, slot, value, eff, rel].                             *)
(***************************************************************************)
EXTENDS Integers, Sequences, FiniteSets, TLC

Sel(cs, e, s) == {i \in 1..Len(cs) : cs[i].entity = e /\ cs[i].slot = s}

\* index of the winner among candidate indices C (non-retracted only), 0 = none
Winner(cs, C) ==
  LET live == {i \in C : cs[i].rel # "retracts"} IN
  IF live = {} THEN 0
  ELSE CHOOSE i \in live : \A j \in live : cs[j].eff < cs[i].eff \/ (cs[j].eff = cs[i].eff /\ i >= j)

\* what the property itself allows: any non-retracted candidate of maximal effective time (ties are not decided by C27)
Winners(cs, C) == LET live == {i \in C : cs[i].rel # "retracts"} IN {i \in live : \A j \in live : cs[j].eff <= cs[i].eff}
CurrentSet(cs, e, s) == Winners(cs, Sel(cs, e, s))
AtTimeSet(cs, e, s, t) == Winners(cs, {i \in Sel(cs, e, s) : cs[i].eff <= t})

GetCurrent(cs, e, s) == Winner(cs, Sel(cs, e, s))
GetAtTime(cs, e, s, t) == Winner(cs, {i \in Sel(cs, e, s) : cs[i].eff <= t})

(* ------------------------------- contract ------------------------------- *)
\* C27: never a card after t, never a retraction; at or beyond the latest card the answer is the current one
Contract(cs, e, s, t) ==
  LET w == GetAtTime(cs, e, s, t) IN
  /\ (w # 0 => cs[w].eff <= t /\ cs[w].rel # "retracts")
  /\ ((\A i \in Sel(cs, e, s) : cs[i].eff <= t) => w = GetCurrent(cs, e, s))

(* ------------------------------ enumeration ----------------------------- *)
CONSTANTS MaxCards, Times
VARIABLE c
Rels == {"sets", "updates", "extends", "retracts"}
Card == [entity : {"e1", "e2"}, slot : {"s1"}, value : {1}, eff : Times, rel : Rels]
Init == c \in [cs : UNION {[1..n -> Card] : n \in 0..MaxCards}, t : Times \cup {0, 100}]
Next == UNCHANGED c
Spec == Init /\ [][Next]_c
ContractHolds == Contract(c.cs, "e1", "s1", c.t)
=============================================================================
