------------------------------ MODULE Mv2Query ------------------------------
(***************************************************************************)
(* Contracts of the read paths (search, time travel, ACL, vector search,   *)
(* pagination) as relations between a frame table, per-document attributes *)
(* and a logged result.  Ranking (BM25 x recency) is floating point and is  *)
(* not part of any listed property: results are judged as sets / by the     *)
(* order-independent contracts below.  Used by Trace_Mv2Core.               *)
(*                                                                         *)
(* A document's attributes: atoms (the query atoms it satisfies: words      *)
(* "w0".."w7", tags "T1".., labels "L1"..), acl (its ACL metadata or        *)
(* "none").  Vectors are small integer vectors so that squared distances    *)
(* are exact.                                                               *)
(***************************************************************************)
EXTENDS Integers, Sequences, FiniteSets, TLC

QL == INSTANCE QueryLang WITH MaxDepth <- 128, BaseAtoms <- {}, AstDepth <- 0, ast <- 0, expl <- FALSE

SeqSet(s) == {s[i] : i \in 1..Len(s)}
Has(r, f) == f \in DOMAIN r

RECURSIVE Concat(_)
Concat(ss) == IF ss = <<>> THEN <<>> ELSE Head(ss) \o Concat(Tail(ss))

(* ----------------------------- vectors (C13) ----------------------------- *)
\* embedding(e, dim)[i] = (e*(i+1)*7 + i*3 + e*e) % 23   (harness/src/core.rs)
EmbAt(e, i) == (e * (i + 1) * 7 + i * 3 + e * e) % 23
RECURSIVE D2From(_, _, _, _)
D2From(a, b, i, dim) == IF i >= dim THEN 0 ELSE (EmbAt(a, i) - EmbAt(b, i)) * (EmbAt(a, i) - EmbAt(b, i)) + D2From(a, b, i + 1, dim)
D2(a, b, dim) == D2From(a, b, 0, dim)

\* exact k-NN: hits = sequence of [f, d2]; embOf: frame id -> embedding id of the ACTIVE embedded frames
VecExact(hits, embOf, q, k, dim) ==
  LET m == Cardinality(DOMAIN embOf) IN
  /\ Len(hits) = (IF k < m THEN k ELSE m)
  /\ \A i \in 1..Len(hits) : hits[i].f \in DOMAIN embOf /\ hits[i].d2 = D2(q, embOf[hits[i].f], dim)
  /\ \A i \in 1..(Len(hits) - 1) : hits[i].d2 <= hits[i + 1].d2
  /\ Cardinality({hits[i].f : i \in 1..Len(hits)}) = Len(hits)
  /\ (Len(hits) > 0 => \A g \in DOMAIN embOf \ {hits[i].f : i \in 1..Len(hits)} : D2(q, embOf[g], dim) >= hits[Len(hits)].d2)

(* ------------------------------- ACL (C12) ------------------------------- *)
\* metadata shapes that must be denied whatever the caller: missing, no tenant, unknown visibility, malformed list
Malformed(acl) == acl.shape \in {"missing", "no_tenant", "bad_vis", "bad_list"}
Inter(a, b) == SeqSet(a) \cap SeqSet(b) # {}
AclAllowed(acl, ctx) ==
  /\ ~Malformed(acl)
  /\ acl.tenant = ctx.tenant
  /\ \/ acl.vis = "public"
     \/ /\ acl.vis = "restricted"
        /\ \/ (Has(ctx, "subject") /\ ctx.subject \in SeqSet(acl.principals))
           \/ Inter(ctx.roles, acl.roles)
           \/ Inter(ctx.groups, acl.groups)
=============================================================================
