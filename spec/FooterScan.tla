----------------------------- MODULE FooterScan -----------------------------
(***************************************************************************)
(* find_last_valid_footer (src/footer.rs) transcribed step by step, and    *)
(* the naive definition the property states: "the valid commit footer      *)
(* (magic, length and TOC hash all consistent) that ends at the highest    *)
(* offset, or nothing".                                                    *)
(*                                                                         *)
(* Byte strings are sequences of 8-byte cells.  A commit footer is 7 cells *)
(* (56 bytes): magic | toc_len | hash x4 | generation.  Strings are built  *)
(* from tokens: a filler cell, a cell starting with the magic's first byte *)
(* ("M"), a whole footer F(j, ok, gm) whose TOC is the j cells before it   *)
(* (j = 0: zero length; j = Big: longer than the file), whose hash is      *)
(* right (ok) or wrong, and whose generation field does (gm) or does not   *)
(* start with the magic's first byte; and a truncated footer P(k) (first k *)
(* cells).  The harness concretises every string with real magic, length   *)
(* and blake3 and runs the real function on it.                            *)
(***************************************************************************)
EXTENDS Integers, Sequences, FiniteSets, TLC

CONSTANTS MaxTok, Big

FCells == 7

TokX == [t |-> "x", j |-> 0, ok |-> FALSE, gm |-> FALSE, k |-> 0]
TokM == [t |-> "M", j |-> 0, ok |-> FALSE, gm |-> FALSE, k |-> 0]
TokF(j, ok, gm) == [t |-> "F", j |-> j, ok |-> ok, gm |-> gm, k |-> FCells]
TokP(k) == [t |-> "P", j |-> 1, ok |-> TRUE, gm |-> FALSE, k |-> k]

Alphabet == {TokX, TokM} \cup {TokF(j, ok, gm) : j \in {0, 1, 2, Big}, ok \in BOOLEAN, gm \in BOOLEAN}
            \cup {TokP(k) : k \in {1, 2, 6}}

\* cells of one token; `id` ties the cells of one footer together
Cell(kind, id, j, ok, gm) == [c |-> kind, id |-> id, j |-> j, ok |-> ok, gm |-> gm]
FooterCells(tok, id) ==
  LET all == <<Cell("Mg", id, tok.j, tok.ok, tok.gm), Cell("Len", id, tok.j, tok.ok, tok.gm),
               Cell("H", id, tok.j, tok.ok, tok.gm), Cell("H", id, tok.j, tok.ok, tok.gm),
               Cell("H", id, tok.j, tok.ok, tok.gm), Cell("H", id, tok.j, tok.ok, tok.gm),
               Cell("Gen", id, tok.j, tok.ok, tok.gm)>> IN
  SubSeq(all, 1, tok.k)

RECURSIVE Expand(_, _)
Expand(toks, i) ==
  IF i > Len(toks) THEN <<>>
  ELSE (IF toks[i].t = "x" THEN <<Cell("x", 0, 0, FALSE, FALSE)>>
        ELSE IF toks[i].t = "M" THEN <<Cell("M", 0, 0, FALSE, FALSE)>>
        ELSE FooterCells(toks[i], i)) \o Expand(toks, i + 1)

Cells(toks) == Expand(toks, 1)

\* does the cell contain a byte equal to the magic's first byte (what memrchr looks for)?
IsM(c) == c.c \in {"M", "Mg"} \/ (c.c = "Gen" /\ c.gm)

\* a decoded candidate at cell p (all 7 cells inside the string): its fields as the code sees them
LenOf(cs, p) == IF cs[p + 1].c = "Len" THEN cs[p + 1].j ELSE Big      \* garbage decodes to a huge length
HashOk(cs, p) == /\ cs[p + 1].c = "Len" /\ cs[p + 1].id = cs[p].id
                 /\ \A q \in (p + 2)..(p + 5) : cs[q].c = "H" /\ cs[q].id = cs[p].id
                 /\ cs[p].ok

(* ------------------ the code, transcribed (cell indices 1-based) -------- *)
MaxOf(S) == CHOOSE x \in S : \A y \in S : y <= x

RECURSIVE ScanFrom(_, _)
ScanFrom(cs, searchEnd) ==            \* searchEnd = number of leading cells still to search
  LET Ms == {p \in 1..searchEnd : IsM(cs[p])} IN
  IF Ms = {} THEN 0                                            \* memrchr found nothing
  ELSE LET pos == MaxOf(Ms) IN
    IF (pos - 1) + FCells > Len(cs)                            \* pos + FOOTER_SIZE > total_len
      THEN IF pos = 1 THEN 0 ELSE ScanFrom(cs, pos - 1)
    ELSE IF cs[pos].c = "Mg"                                   \* CommitFooter::decode succeeds
      THEN LET tl == LenOf(cs, pos) IN
           IF tl = 0 \/ tl > pos - 1 THEN ScanFrom(cs, pos - 1)    \* toc_len == 0 || toc_len > toc_end
           ELSE IF ~HashOk(cs, pos) THEN ScanFrom(cs, pos - 1)
           ELSE pos
    ELSE IF pos = 1 THEN 0 ELSE ScanFrom(cs, pos - 1)

Scan(cs) == IF Len(cs) < FCells THEN 0 ELSE ScanFrom(cs, Len(cs))

(* ------------------------ the property's definition --------------------- *)
ValidAt(cs, p) ==
  /\ p + FCells - 1 <= Len(cs)
  /\ cs[p].c = "Mg"
  /\ LenOf(cs, p) > 0 /\ LenOf(cs, p) <= p - 1
  /\ HashOk(cs, p)

Naive(cs) == LET V == {p \in 1..Len(cs) : ValidAt(cs, p)} IN IF V = {} THEN 0 ELSE MaxOf(V)

(* ----------------------------- enumeration ------------------------------ *)
VARIABLE toks
vars == <<toks>>

Strings == UNION {[1..n -> Alphabet] : n \in 0..MaxTok}

Init == toks \in Strings
Next == UNCHANGED toks
Spec == Init /\ [][Next]_vars

\* C31: the scan returns the valid footer that ends at the highest offset, or nothing
ScanIsLastValid == Scan(Cells(toks)) = Naive(Cells(toks))

\* the TOC bytes returned are exactly what the footer describes: offset = footer - len
TocDescribed == LET cs == Cells(toks)  p == Scan(cs) IN
                p > 0 => (LenOf(cs, p) \in 1..(p - 1))
=============================================================================
