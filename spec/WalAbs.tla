------------------------------ MODULE WalAbs ------------------------------
(***************************************************************************)
(* Cursor-level model of the embedded log: only numbers and the chain of   *)
(* records that lies contiguously from the region start to the sentinel.   *)
(* This is the intended design (no deviations).  WalRing (cell level)      *)
(* refines it under  chain <- Scan(mem).recs ; it is what Mv2Core uses and *)
(* what traces of the real EmbeddedWal on realistic region sizes are       *)
(* validated against (Trace_WalAbs).                                       *)
(***************************************************************************)
EXTENDS Naturals, Sequences

CONSTANTS H, Lens
VARIABLES rsz,    \* region size
          chain,  \* <<seq,len>> of the records from offset 0 to the sentinel
          wh, pb, seq, cseq, apc,
          last    \* observation of the last call

avars == <<rsz, chain, wh, pb, seq, cseq, apc, last>>
acore == <<rsz, chain, wh, pb, seq, cseq, apc>>

RECURSIVE After(_,_)
After(recs, s) == IF recs = <<>> THEN <<>>
                  ELSE IF Head(recs)[1] > s THEN <<Head(recs)>> \o After(Tail(recs), s)
                  ELSE After(Tail(recs), s)
RECURSIVE Sizes(_)
Sizes(recs) == IF recs = <<>> THEN 0 ELSE H + Head(recs)[2] + Sizes(Tail(recs))

Pend == After(chain, cseq)
AObs(op, arg, res, recs) == [op |-> op, arg |-> arg, res |-> res, recs |-> recs]

AInit(r) == /\ rsz = r /\ chain = <<>> /\ wh = 0 /\ pb = 0 /\ seq = 0 /\ cseq = 0 /\ apc = 0
            /\ last = AObs("init", 0, "ok", <<>>)

AReject(l, why) == /\ UNCHANGED acore /\ last' = AObs("append", l, why, <<>>)

AAppend(l) ==
  LET e == H + l IN
  IF l = 0 THEN AReject(l, "empty")
  ELSE IF e > rsz THEN AReject(l, "small")
  ELSE IF pb + e > rsz THEN AReject(l, "full")
  ELSE LET wrapping == wh + e > rsz IN
    IF wrapping /\ pb > 0 THEN AReject(l, "full")
    ELSE /\ chain' = (IF wrapping THEN <<>> ELSE chain) \o << <<seq + 1, l>> >>
         /\ wh' = (IF wrapping THEN 0 ELSE wh) + e
         /\ pb' = pb + e /\ seq' = seq + 1 /\ apc' = apc + 1
         /\ UNCHANGED <<rsz, cseq>>
         /\ last' = AObs("append", l, "ok", <<>>)

ACheckpoint == /\ pb' = 0 /\ apc' = 0 /\ cseq' = seq
               /\ UNCHANGED <<rsz, chain, wh, seq>>
               /\ last' = AObs("checkpoint", 0, "ok", <<>>)

ARescan(op, newApc) ==
  /\ seq' = (IF chain = <<>> THEN (IF op = "reopen" THEN cseq ELSE seq) ELSE chain[Len(chain)][1])
  /\ pb' = Sizes(Pend) /\ wh' = Sizes(chain) /\ apc' = newApc
  /\ UNCHANGED <<rsz, chain, cseq>>
  /\ last' = AObs(op, 0, "ok", Pend)

APending == ARescan("pending", apc)
AReopen  == ARescan("reopen", 0)
AStats   == /\ UNCHANGED acore /\ last' = AObs("stats", 0, "ok", <<>>)

ANext == \/ \E l \in Lens : AAppend(l)
         \/ ACheckpoint \/ APending \/ AReopen

ASpec(r) == AInit(r) /\ [][ANext]_avars

Due == pb * 4 >= 3 * rsz \/ apc >= 1000     \* should_checkpoint()
=============================================================================
