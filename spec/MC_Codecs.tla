----------------------------- MODULE MC_Codecs -----------------------------
(* Model-checking instance of Codecs: checks the C30 statement on every case of the instance and writes  *)
(* the cases out (one JSON object per line) for the harness to execute on the real codecs.               *)
EXTENDS Codecs, Json, IOUtils, SequencesExt
ASSUME DumpCases == ndJsonSerialize(IOEnv.CASES, SetToSeq(Cases))
=============================================================================
