------------------------------ MODULE QueryLang ------------------------------
(***************************************************************************)
(* The query language of `search` (src/search/parser.rs + mod.rs):         *)
(*  - the recursive-descent parser transcribed over token sequences        *)
(*    (parse_expression / parse_term / parse_factor / parse_primary,       *)
(*    including implicit AND, the nesting limit, the error returns and     *)
(*    the as-built acceptance of trailing tokens after a complete          *)
(*    expression);                                                         *)
(*  - the reference semantics the property states (NOT > AND > OR);        *)
(*  - a printer from reference ASTs to token sequences.                    *)
(* TLC checks  Eval(Parse(Show(ast))) = Eval(ast)  for every bounded AST  *)
(* and document; the harness runs the real parser + evaluator on token     *)
(* strings and TLC compares outcome and match decisions (Trace_Func).      *)
(*                                                                         *)
(* Tokens: "a" "b" "c" words, "p" a quoted phrase, "t" "l" "u" field terms,*)
(* "AND" "OR" "NOT" (also lower case) "(" ")".  A document is the set of   *)
(* atoms it satisfies.                                                     *)
(***************************************************************************)
EXTENDS Integers, Sequences, FiniteSets, TLC

CONSTANT MaxDepth      \* MAX_QUERY_DEPTH of the parser (128)

Atoms == {"a", "b", "c", "p", "t", "l", "u", "A"}
IsAnd(t) == t \in {"AND", "and"}
IsOr(t) == t \in {"OR", "or"}
IsNot(t) == t \in {"NOT", "not"}

\* any token that is not a keyword or a parenthesis is an operand (word, phrase or field term)
IsAtom(t) == ~IsAnd(t) /\ ~IsOr(t) /\ ~IsNot(t) /\ t \notin {"(", ")", "<end>"}

Atom(v) == [k |-> "atom", v |-> v, es |-> <<>>]
NotE(e) == [k |-> "not", v |-> "", es |-> <<e>>]
AndE(es) == [k |-> "and", v |-> "", es |-> es]
OrE(es) == [k |-> "or", v |-> "", es |-> es]

Ok(e, p, d) == [ok |-> TRUE, e |-> e, p |-> p, d |-> d]
Fail(p) == [ok |-> FALSE, e |-> Atom("a"), p |-> p, d |-> 0]

Tok(ts, p) == IF p <= Len(ts) THEN ts[p] ELSE "<end>"

(* ------------------------- the parser, transcribed ---------------------- *)
RECURSIVE ParseExpr(_, _, _), OrLoop(_, _, _, _), ParseTerm(_, _, _), AndLoop(_, _, _, _),
          ParseFactor(_, _, _), ParsePrimary(_, _, _)

\* parse_expression: term (OR term)*
ParseExpr(ts, p, d) ==
  LET r == ParseTerm(ts, p, d) IN
  IF ~r.ok THEN r ELSE OrLoop(ts, <<r.e>>, r.p, d)

OrLoop(ts, acc, p, d) ==
  IF IsOr(Tok(ts, p))
    THEN LET r == ParseTerm(ts, p + 1, d) IN
         IF ~r.ok THEN r ELSE OrLoop(ts, Append(acc, r.e), r.p, d)
    ELSE Ok(IF Len(acc) = 1 THEN acc[1] ELSE OrE(acc), p, d)

\* parse_term: factor ((AND)? factor)*  -- stops at OR, ")" or the end
ParseTerm(ts, p, d) ==
  LET r == ParseFactor(ts, p, d) IN
  IF ~r.ok THEN r ELSE AndLoop(ts, <<r.e>>, r.p, d)

AndLoop(ts, acc, p, d) ==
  LET t == Tok(ts, p) IN
  IF IsAnd(t)
    THEN LET r == ParseFactor(ts, p + 1, d) IN
         IF ~r.ok THEN r ELSE AndLoop(ts, Append(acc, r.e), r.p, d)
  ELSE IF IsOr(t) \/ t = ")" \/ t = "<end>"
    THEN Ok(IF Len(acc) = 1 THEN acc[1] ELSE AndE(acc), p, d)
  ELSE LET r == ParseFactor(ts, p, d) IN          \* implicit AND
       IF ~r.ok THEN r ELSE AndLoop(ts, Append(acc, r.e), r.p, d)

\* parse_factor: NOT factor | primary      (each NOT is one nesting level)
ParseFactor(ts, p, d) ==
  IF IsNot(Tok(ts, p))
    THEN IF d + 1 > MaxDepth THEN Fail(p)
         ELSE LET r == ParseFactor(ts, p + 1, d + 1) IN
              IF ~r.ok THEN r ELSE Ok(NotE(r.e), r.p, d)
    ELSE ParsePrimary(ts, p, d)

\* parse_primary: "(" expression ")" | word | phrase | field       (each "(" is one nesting level)
ParsePrimary(ts, p, d) ==
  LET t == Tok(ts, p) IN
  IF t = "("
    THEN IF d + 1 > MaxDepth THEN Fail(p)
         ELSE LET r == ParseExpr(ts, p + 1, d + 1) IN
              IF ~r.ok THEN r
              ELSE IF Tok(ts, r.p) = ")" THEN Ok(r.e, r.p + 1, d) ELSE Fail(r.p)
  ELSE IF IsAtom(t) THEN Ok(Atom(t), p + 1, d)
  ELSE Fail(p)           \* AND / OR / ")" / end of query where an operand is expected

\* parse_query: as built, tokens after a complete expression are ignored
Parse(ts) == ParseExpr(ts, 1, 0)

(* ------------------------------ evaluation ------------------------------ *)
\* word and field matching are case-insensitive: "A" is the word "a" in another case
AtomHolds(v, doc) == IF v = "A" THEN "a" \in doc ELSE v \in doc

RECURSIVE Eval(_, _)
Eval(e, doc) ==
  IF e.k = "atom" THEN AtomHolds(e.v, doc)
  ELSE IF e.k = "not" THEN ~Eval(e.es[1], doc)
  ELSE IF e.k = "and" THEN \A i \in 1..Len(e.es) : Eval(e.es[i], doc)
  ELSE \E i \in 1..Len(e.es) : Eval(e.es[i], doc)

(* ----------------- printer of reference ASTs (minimal parentheses) ------ *)
RECURSIVE Show(_, _, _)
\* ctx: 0 = top / OR operand position allows AND and NOT; 1 = AND operand; 2 = NOT operand
\* explicit: write "AND" between conjuncts (otherwise implicit AND)
Paren(s) == <<"(">> \o s \o <<")">>
RECURSIVE Join(_, _, _, _, _)
Join(es, i, sep, ctx, explicit) ==
  IF i > Len(es) THEN <<>>
  ELSE (IF i > 1 THEN sep ELSE <<>>) \o Show(es[i], ctx, explicit) \o Join(es, i + 1, sep, ctx, explicit)
Show(e, ctx, explicit) ==
  IF e.k = "atom" THEN <<e.v>>
  ELSE IF e.k = "not" THEN <<"NOT">> \o Show(e.es[1], 2, explicit)
  ELSE IF e.k = "and"
    THEN LET s == Join(e.es, 1, IF explicit THEN <<"AND">> ELSE <<>>, 1, explicit) IN
         IF ctx = 2 THEN Paren(s) ELSE s
  ELSE LET s == Join(e.es, 1, <<"OR">>, 0, explicit) IN
       IF ctx >= 1 THEN Paren(s) ELSE s

(* ------------------------------ enumeration ----------------------------- *)
CONSTANTS BaseAtoms, AstDepth
RECURSIVE ASTs(_)
ASTs(n) == IF n = 0 THEN {Atom(v) : v \in BaseAtoms}
           ELSE LET S == ASTs(n - 1) IN
                S \cup {NotE(e) : e \in S} \cup {AndE(<<x, y>>) : x \in S, y \in S} \cup {OrE(<<x, y>>) : x \in S, y \in S}
Docs == SUBSET BaseAtoms

VARIABLES ast, expl
Init == ast \in ASTs(AstDepth) /\ expl \in BOOLEAN
Next == UNCHANGED <<ast, expl>>
Spec == Init /\ [][Next]_<<ast, expl>>

\* C32: the parser gives a printed query the reference meaning: NOT binds tighter than AND,
\* AND (explicit or implicit) tighter than OR
MeansWhatItSays ==
  LET r == Parse(Show(ast, 0, expl)) IN
  /\ r.ok /\ r.p = Len(Show(ast, 0, expl)) + 1
  /\ \A doc \in Docs : Eval(r.e, doc) = Eval(ast, doc)
=============================================================================
