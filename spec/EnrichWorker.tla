---------------------------- MODULE EnrichWorker ----------------------------
(***************************************************************************)
(* The background enrichment worker (src/enrichment_worker.rs:             *)
(* run_worker_loop, wired by memvid::enrichment::start_enrichment_worker)   *)
(* next to a foreground client, both working on one Mutex<Memvid>.  Every   *)
(* action is one critical section (the mutex is held for its duration):     *)
(*   worker:     WGet, WProcess, WComplete, WCheckpoint, WExit              *)
(*   foreground: FgPut, FgCommit, FgSearch, FgDelete, FgStop                *)
(* A put with instant indexing + embedding wanted leaves its frame          *)
(* "S" (Searchable) and queues it; the worker turns it "E" (Enriched).      *)
(* Deviation "D41_uncommitted_task" is the behaviour before the repair:     *)
(* the head of the queue is handed out even when its put is still pending,  *)
(* the task fails with "Frame not found" and is dropped.                    *)
(***************************************************************************)
EXTENDS Integers, Sequences, FiniteSets, TLC

CONSTANTS MaxPuts, Interval, Defects

VARIABLES nframes,   \* committed frames: ids 0..nframes-1
          npend,     \* puts pending in the log: ids nframes..nframes+npend-1
          penr,      \* enrichment state carried by each pending put (sequence)
          ptomb,     \* frames with a pending tombstone
          enr, st,   \* per committed frame: "S"/"E", "A"/"D" (sequences)
          queue,     \* enrichment queue (frame ids)
          wpc, wtask, since, stop,
          proc,      \* ghost: how often each frame was successfully processed (sequence over committed frames)
          everq,     \* ghost: frames ever queued
          nputs, last

vars == <<nframes, npend, penr, ptomb, enr, st, queue, wpc, wtask, since, stop, proc, everq, nputs, last>>

Obs(who, op, id, err) == [who |-> who, op |-> op, id |-> id, err |-> err]

Init == /\ nframes = 0 /\ npend = 0 /\ penr = <<>> /\ ptomb = {} /\ enr = <<>> /\ st = <<>> /\ queue = <<>>
        /\ wpc = "idle" /\ wtask = -1 /\ since = 0 /\ stop = FALSE /\ proc = <<>> /\ everq = {} /\ nputs = 0
        /\ last = Obs("-", "init", -1, "")

\* materialise the pending window (commit by the foreground or the worker's checkpoint)
Materialise ==
  /\ nframes' = nframes + npend /\ npend' = 0 /\ penr' = <<>> /\ ptomb' = {}
  /\ enr' = enr \o penr
  /\ st' = [i \in 1..(nframes + npend) |-> IF i <= nframes THEN (IF (i - 1) \in ptomb THEN "D" ELSE st[i]) ELSE "A"]
  /\ proc' = proc \o [i \in 1..npend |-> 0]

FgPut(q) ==
  /\ nputs < MaxPuts
  /\ nputs' = nputs + 1 /\ npend' = npend + 1
  /\ penr' = Append(penr, IF q THEN "S" ELSE "E")
  /\ queue' = (IF q THEN Append(queue, nframes + npend) ELSE queue)
  /\ everq' = (IF q THEN everq \cup {nframes + npend} ELSE everq)
  /\ last' = Obs("fg", "fg_put", nframes + npend, "ok")
  /\ UNCHANGED <<nframes, ptomb, enr, st, wpc, wtask, since, stop, proc>>

FgCommit == /\ Materialise /\ last' = Obs("fg", "fg_commit", 0, "ok")
            /\ UNCHANGED <<queue, wpc, wtask, since, stop, everq, nputs>>

FgSearch == /\ last' = Obs("fg", "fg_search", 0, "ok")
            /\ UNCHANGED <<nframes, npend, penr, ptomb, enr, st, queue, wpc, wtask, since, stop, proc, everq, nputs>>

FgDelete(f) == /\ f < nframes /\ st[f + 1] = "A"      \* (a second delete before the commit is accepted too)
               /\ ptomb' = ptomb \cup {f} /\ last' = Obs("fg", "fg_delete", f, "ok")
               /\ UNCHANGED <<nframes, npend, penr, enr, st, queue, wpc, wtask, since, stop, proc, everq, nputs>>

FgStop == /\ ~stop /\ stop' = TRUE /\ last' = Obs("fg", "fg_stop", 0, "")
          /\ UNCHANGED <<nframes, npend, penr, ptomb, enr, st, queue, wpc, wtask, since, proc, everq, nputs>>

\* the task the queue hands out
Ready == IF "D41_uncommitted_task" \in Defects THEN {i \in 1..Len(queue) : TRUE}
         ELSE {i \in 1..Len(queue) : queue[i] < nframes}
NextTask == IF Ready = {} THEN -1 ELSE queue[CHOOSE i \in Ready : \A j \in Ready : i <= j]

\* the loop tests the stop flag outside the mutex: one iteration may already be past the test when stop is set
\* (WGetLate); the model-checked worker (WGet) tests it atomically
WGetLate ==
        /\ wpc = "idle"
        /\ wtask' = NextTask
        /\ wpc' = (IF NextTask = -1 THEN "idle" ELSE "got")
        /\ last' = Obs("w", "w_get", NextTask, "")
        /\ UNCHANGED <<nframes, npend, penr, ptomb, enr, st, queue, since, stop, proc, everq, nputs>>

WGet == ~stop /\ WGetLate

WProcess == /\ wpc = "got"
            /\ IF wtask < nframes /\ st[wtask + 1] = "A"
                 THEN /\ enr' = [enr EXCEPT ![wtask + 1] = "E"] /\ proc' = [proc EXCEPT ![wtask + 1] = @ + 1]
                      /\ last' = Obs("w", "w_process", wtask, "")
                 ELSE /\ enr' = enr /\ proc' = proc /\ last' = Obs("w", "w_process", wtask, "Frame not found")
            /\ wpc' = "processed"
            /\ UNCHANGED <<nframes, npend, penr, ptomb, st, queue, wtask, since, stop, everq, nputs>>

RemoveFirst(q, x) == LET idx == {i \in 1..Len(q) : q[i] = x} IN
                     IF idx = {} THEN q
                     ELSE LET k == CHOOSE i \in idx : \A j \in idx : i <= j IN [i \in 1..(Len(q) - 1) |-> IF i < k THEN q[i] ELSE q[i + 1]]

WComplete == /\ wpc = "processed"
             /\ queue' = SelectSeq(queue, LAMBDA x : x # wtask)
             /\ since' = since + 1
             /\ wpc' = (IF since + 1 >= Interval THEN "ckpt" ELSE "idle")
             /\ last' = Obs("w", "w_complete", wtask, "")
             /\ UNCHANGED <<nframes, npend, penr, ptomb, enr, st, wtask, stop, proc, everq, nputs>>

WCheckpoint == /\ wpc = "ckpt" \/ (wpc = "idle" /\ stop /\ since > 0)
               /\ Materialise /\ since' = 0
               /\ wpc' = (IF wpc = "ckpt" THEN "idle" ELSE "exiting")
               /\ last' = Obs("w", "w_checkpoint", 0, "")
               /\ UNCHANGED <<queue, wtask, stop, everq, nputs>>

WExit == /\ (wpc = "exiting" \/ (wpc = "idle" /\ stop /\ since = 0))
         /\ wpc' = "stopped" /\ last' = Obs("w", "w_stopped", 0, "")
         /\ UNCHANGED <<nframes, npend, penr, ptomb, enr, st, queue, wtask, since, stop, proc, everq, nputs>>

Next == \/ \E q \in BOOLEAN : FgPut(q)
        \/ FgCommit \/ FgSearch \/ FgStop \/ (\E f \in 0..(MaxPuts - 1) : FgDelete(f))
        \/ WGet \/ WProcess \/ WComplete \/ WCheckpoint \/ WExit

Spec == Init /\ [][Next]_vars
FairSpec == Spec /\ WF_vars(WGet) /\ WF_vars(WProcess) /\ WF_vars(WComplete) /\ WF_vars(WCheckpoint) /\ WF_vars(WExit)

(* -------------------------------- properties ---------------------------- *)
\* C41: no acknowledged frame is lost
NoFrameLost == nframes + npend = nputs /\ Len(enr) = nframes /\ Len(st) = nframes /\ Len(proc) = nframes
\* C41: only frames queued for enrichment change state, and each at most once
OnlyQueuedChange == \A i \in 1..nframes : proc[i] > 0 => (i - 1) \in everq
AtMostOnce == \A i \in 1..nframes : proc[i] <= 1
StateExplained == \A i \in 1..nframes : ((i - 1) \in everq /\ enr[i] = "E") => proc[i] = 1
\* C41: once the queue has drained, every queued frame that is still active has been enriched
Drained == (queue = <<>> /\ wpc \in {"idle", "stopped", "exiting"}) =>
             \A i \in 1..nframes : ((i - 1) \in everq /\ st[i] = "A") => enr[i] = "E"
\* C41: the worker stops when asked
StopsWhenAsked == stop ~> (wpc = "stopped")
=============================================================================
