------------------------------ MODULE Mv2Disk ------------------------------
(***************************************************************************)
(* Storage protocol of a .mv2 memory at the level of file operations:      *)
(* which inode a name refers to (volatile and durable directory), what     *)
(* every inode contains now and what it may contain after a power loss,    *)
(* and what the real open-time recovery makes of an image.                 *)
(*                                                                         *)
(* Two layers.                                                             *)
(*                                                                         *)
(*  1. The file-system layer (Fs* operators): create / write / truncate /  *)
(*     fsync / rename / unlink / directory fsync on inodes, with           *)
(*       vol[i]   the image of inode i as a process crash leaves it,       *)
(*       hist[i]  the images inode i may fall back to at a power loss:     *)
(*                every image it had since its last fsync (prefix model),  *)
(*       dir      name -> inode now,    ddir  name -> inode after a power  *)
(*                loss that forgets un-synced renames (a new file's entry  *)
(*                becomes durable with the file's first fsync).            *)
(*     An image is abstracted by what recovery makes of it: `recs`, the    *)
(*     set of positions in the chain of logical states (state after 0, 1,  *)
(*     2 ... acknowledged operations) the recovered memory equals; {} when *)
(*     open fails or shows a state outside the chain.  The invariants      *)
(*       ProcSafe   the image a process crash leaves under the name opens  *)
(*                  with every acknowledged operation and at most the one  *)
(*                  in flight                                        (C02) *)
(*       PowerSafe  the same for every image a power loss can leave  (C03) *)
(*     use nothing else.  This layer is what recorded file-operation logs  *)
(*     of the real crate are validated against (Trace_Mv2Disk): there the  *)
(*     `recs` of an image is what the REAL recovery shows on that image.   *)
(*                                                                         *)
(*  2. The writer (one action per file operation the code issues, in the   *)
(*     order observed with the recorder, DESIGN Appendix B): put = log     *)
(*     append, fsync; commit / open-time recovery / vacuum = copy to a     *)
(*     staging file, fsync, rewrite there, fsync, rename over the name,    *)
(*     directory fsync; process crash and power loss at any step; open     *)
(*     (with recovery) after a crash, again crashable.  TLC explores every *)
(*     interleaving of crashes with these steps.                           *)
(*                                                                         *)
(* Named deviations (constant Defects); {} is the design as built now:     *)
(*   "no_wal_fsync"     put returns before its log record is synced        *)
(*   "no_stage_fsync"   the staging file is renamed without fsync          *)
(*   "no_dirsync"       the rename is not followed by a directory fsync    *)
(*   "inplace_commit"   commit rewrites data, TOC and header of the live   *)
(*                      file (what WAL growth, apply_ticket,               *)
(*                      commit_skip_indexes and doctor still do - known    *)
(*                      findings of the F02 / F03 / F21 families)         *)
(*   "inplace_recovery" open-time replay rewrites the live file (as built  *)
(*                      before fix 51b0b42)                                *)
(* Each of them makes TLC report a violation of ProcSafe or PowerSafe      *)
(* (checked by the disk engine as a self-test of the invariants).          *)
(***************************************************************************)
EXTENDS Integers, Sequences, FiniteSets, TLC

CONSTANTS Ino,          \* inode identifiers (positive integers)
          Names,        \* file names in the directory; "main" is the memory
          MaxOps,       \* model checking: operations acknowledged at most
          MaxCrashes,   \* model checking: crashes / power losses at most
          MixedFaults,  \* model checking: may a power loss follow a process crash that interrupted rename .. directory fsync?
          Defects

NoIno == 0

VARIABLES dir, ddir,    \* [Names -> Ino \cup {NoIno}]
          vol,          \* [Ino -> image]
          hist,         \* [Ino -> SUBSET image], vol[i] \in hist[i]
          lo, dlo, hi,  \* ghosts: operations acknowledged / acknowledged as durable / possibly in flight
          h,            \* writer: inode its handle has open (NoIno: no handle)
          mem,          \* writer: chain position its in-memory state is at
          pc,           \* writer: <<call, step>>
          stg,          \* writer: the staging inode of the call in progress
          crashes,
          orphan        \* a process crash fell between a rename and its directory fsync, and no directory fsync happened since

fsvars == <<dir, ddir, vol, hist>>
ghost  == <<lo, dlo, hi>>
wvars  == <<h, mem, pc, stg, crashes, orphan>>
vars   == <<dir, ddir, vol, hist, lo, dlo, hi, h, mem, pc, stg, crashes, orphan>>

(* ------------------------------- images -------------------------------- *)
\* model checking: an image is the chain position its TOC covers (-1: no valid TOC) and the number of
\* valid log records after it; recovery applies the log to the TOC
Img(toc, pend) == [toc |-> toc, pend |-> pend, recs |-> IF toc < 0 THEN {} ELSE {toc + pend}]
Blank == Img(-1, 0)
\* a TOC that already covers the log records still pending behind it: replay would apply them a second time
Twice(toc, pend) == [toc |-> toc, pend |-> pend, recs |-> IF pend = 0 THEN {toc} ELSE {}]

Safe(m, a, b) == \E j \in m.recs : a <= j /\ j <= b

(* --------------------------- file-system layer -------------------------- *)
FsCreate(n, i) ==
  /\ dir' = [dir EXCEPT ![n] = i]
  /\ vol' = [vol EXCEPT ![i] = Blank]
  /\ hist' = [hist EXCEPT ![i] = {Blank}]
  /\ UNCHANGED ddir

FsWrite(i, m) ==
  /\ vol' = [vol EXCEPT ![i] = m]
  /\ hist' = [hist EXCEPT ![i] = @ \cup {m}]
  /\ UNCHANGED <<dir, ddir>>

\* fsync(i): the image is durable; the entry of a newly created file becomes durable with it
FsFsync(i) ==
  /\ hist' = [hist EXCEPT ![i] = {vol[i]}]
  /\ ddir' = [n \in Names |-> IF dir[n] = i /\ ddir[n] = NoIno /\ (\A k \in Names : ddir[k] # i) THEN i ELSE ddir[n]]
  /\ UNCHANGED <<dir, vol>>

FsRename(a, b) ==
  /\ dir' = [dir EXCEPT ![b] = dir[a], ![a] = NoIno]
  /\ UNCHANGED <<ddir, vol, hist>>

FsUnlink(n) ==
  /\ dir' = [dir EXCEPT ![n] = NoIno]
  /\ UNCHANGED <<ddir, vol, hist>>

FsDirSync ==
  /\ ddir' = dir
  /\ UNCHANGED <<dir, vol, hist>>

\* images the name "main" may show after a power loss: either directory, any image since the last fsync
PowerImgs == UNION {hist[d] : d \in {ddir["main"], dir["main"]} \ {NoIno}}

ProcSafe  == dir["main"] # NoIno => Safe(vol[dir["main"]], lo, hi)
PowerSafe == \A m \in PowerImgs : Safe(m, dlo, hi)
\* when a call that promises durability has returned, no image older than it can come back
AckDurable == \A m \in PowerImgs : Safe(m, lo, hi)

(* -------------------------------- writer -------------------------------- *)
Idle == <<"idle", 0>>
At(c, s) == pc = <<c, s>>
Goto(c, s) == pc' = <<c, s>>
Free == CHOOSE i \in Ino : (\A n \in Names : dir[n] # i) /\ i # h

\* put / update / delete: append one log record, fsync, return
PutBegin == /\ pc = Idle /\ h # NoIno /\ lo < MaxOps
            /\ hi' = lo + 1 /\ Goto("put", 1)
            /\ UNCHANGED <<fsvars, lo, dlo, h, mem, stg, crashes, orphan>>
PutWal   == /\ At("put", 1)
            /\ FsWrite(h, Img(vol[h].toc, vol[h].pend + 1))
            /\ mem' = mem + 1
            /\ Goto("put", IF "no_wal_fsync" \in Defects THEN 3 ELSE 2)
            /\ UNCHANGED <<ghost, h, stg, crashes, orphan>>
PutSync  == /\ At("put", 2) /\ FsFsync(h) /\ Goto("put", 3)
            /\ UNCHANGED <<ghost, h, mem, stg, crashes, orphan>>
PutEnd   == /\ At("put", 3)
            /\ lo' = hi /\ dlo' = hi /\ pc' = Idle
            /\ UNCHANGED <<fsvars, hi, h, mem, stg, crashes, orphan>>

\* commit, open-time recovery, vacuum: the same staged rewrite, entered from `c` \in {"commit", "recover"}
InPlace(c) == (c = "commit" /\ "inplace_commit" \in Defects) \/ (c = "recover" /\ "inplace_recovery" \in Defects)

CommitBegin == /\ pc = Idle /\ h # NoIno /\ vol[h].pend > 0
               /\ Goto("commit", 1)
               /\ UNCHANGED <<fsvars, ghost, h, mem, stg, crashes, orphan>>

StSyncMain(c) == /\ At(c, 1) /\ FsFsync(h)
                 /\ Goto(c, IF InPlace(c) THEN 20 ELSE 2)
                 /\ UNCHANGED <<ghost, h, mem, stg, crashes, orphan>>
StCreate(c)   == /\ At(c, 2) /\ FsCreate("stage", Free) /\ stg' = Free /\ Goto(c, 3)
                 /\ UNCHANGED <<ghost, h, mem, crashes, orphan>>
StCopy(c)     == /\ At(c, 3) /\ FsWrite(stg, vol[h]) /\ Goto(c, 4)
                 /\ UNCHANGED <<ghost, h, mem, stg, crashes, orphan>>
StSyncCopy(c) == /\ At(c, 4) /\ FsFsync(stg) /\ Goto(c, 5)
                 /\ UNCHANGED <<ghost, h, mem, stg, crashes, orphan>>
\* payloads and indexes overwrite the old TOC: no valid TOC until the new one is written
StData(c)     == /\ At(c, 5) /\ FsWrite(stg, Img(-1, vol[stg].pend)) /\ Goto(c, 6)
                 /\ UNCHANGED <<ghost, h, mem, stg, crashes, orphan>>
\* new TOC + footer; the header still carries the old checkpoint, so the log records would be applied twice
StToc(c)      == /\ At(c, 6) /\ FsWrite(stg, Twice(mem, vol[stg].pend)) /\ Goto(c, 7)
                 /\ UNCHANGED <<ghost, h, mem, stg, crashes, orphan>>
StHeader(c)   == /\ At(c, 7) /\ FsWrite(stg, Img(mem, 0))
                 /\ Goto(c, IF "no_stage_fsync" \in Defects THEN 9 ELSE 8)
                 /\ UNCHANGED <<ghost, h, mem, stg, crashes, orphan>>
StSync(c)     == /\ At(c, 8) /\ FsFsync(stg) /\ Goto(c, 9)
                 /\ UNCHANGED <<ghost, h, mem, stg, crashes, orphan>>
StRename(c)   == /\ At(c, 9) /\ FsRename("stage", "main")
                 /\ Goto(c, IF "no_dirsync" \in Defects THEN 11 ELSE 10)
                 /\ UNCHANGED <<ghost, h, mem, stg, crashes, orphan>>
StDirSync(c)  == /\ At(c, 10) /\ FsDirSync /\ Goto(c, 11) /\ orphan' = FALSE
                 /\ UNCHANGED <<ghost, h, mem, stg, crashes>>
\* the handle moves to the new inode; the call returns
StEnd(c)      == /\ At(c, 11)
                 /\ h' = dir["main"] /\ stg' = NoIno /\ pc' = Idle
                 /\ dlo' = lo
                 /\ UNCHANGED <<fsvars, lo, hi, mem, crashes, orphan>>

\* the in-place variants (deviations): the same rewrite on the live inode
IpData(c)   == /\ At(c, 20) /\ FsWrite(h, Img(-1, vol[h].pend)) /\ Goto(c, 21)
               /\ UNCHANGED <<ghost, h, mem, stg, crashes, orphan>>
IpToc(c)    == /\ At(c, 21) /\ FsWrite(h, Twice(mem, vol[h].pend)) /\ Goto(c, 22)
               /\ UNCHANGED <<ghost, h, mem, stg, crashes, orphan>>
IpHeader(c) == /\ At(c, 22) /\ FsWrite(h, Img(mem, 0)) /\ Goto(c, 23)
               /\ UNCHANGED <<ghost, h, mem, stg, crashes, orphan>>
IpSync(c)   == /\ At(c, 23) /\ FsFsync(h) /\ pc' = Idle /\ dlo' = lo
               /\ UNCHANGED <<lo, hi, h, mem, stg, crashes, orphan>>

Staged(c) == \/ StSyncMain(c) \/ StCreate(c) \/ StCopy(c) \/ StSyncCopy(c) \/ StData(c) \/ StToc(c)
             \/ StHeader(c) \/ StSync(c) \/ StRename(c) \/ StDirSync(c) \/ StEnd(c)
             \/ IpData(c) \/ IpToc(c) \/ IpHeader(c) \/ IpSync(c)

\* open after a crash: whatever recovery shows is the state from now on; pending records are replayed
\* through the staging copy; nothing is written when nothing is pending
Open == /\ pc = Idle /\ h = NoIno /\ dir["main"] # NoIno
        /\ LET m == vol[dir["main"]] IN
             /\ m.recs # {}                      \* otherwise open fails (ProcSafe / PowerSafe already violated)
             /\ LET L == CHOOSE j \in m.recs : TRUE IN
                  /\ mem' = L /\ lo' = L /\ hi' = L
                  /\ dlo' = dlo       \* what a crash left visible was never acknowledged: durable only after the replay
                  /\ h' = dir["main"]
                  /\ pc' = IF m.pend > 0 THEN <<"recover", 1>> ELSE Idle
        /\ UNCHANGED <<fsvars, stg, crashes, orphan>>

\* process crash: the handle is gone, every completed system call persists
Crash == /\ crashes < MaxCrashes /\ h # NoIno
         /\ h' = NoIno /\ pc' = Idle /\ stg' = NoIno /\ crashes' = crashes + 1
         /\ orphan' = (orphan \/ dir["main"] # ddir["main"])
         /\ UNCHANGED <<fsvars, ghost, mem>>

\* power loss: un-synced renames may be lost; every inode falls back to any image since its last fsync
PowerLoss == /\ crashes < MaxCrashes /\ h # NoIno
             /\ (MixedFaults \/ ~orphan)
             /\ \E d \in {dir, ddir} : \E f \in [Ino -> UNION {hist[i] : i \in Ino}] :
                  /\ \A i \in Ino : f[i] \in hist[i]
                  /\ dir' = d /\ ddir' = d /\ vol' = f /\ hist' = [i \in Ino |-> {f[i]}]
             /\ h' = NoIno /\ pc' = Idle /\ stg' = NoIno /\ crashes' = crashes + 1
             /\ lo' = dlo          \* only what was acknowledged as durable is owed after a power loss
             /\ orphan' = FALSE
             /\ UNCHANGED <<dlo, hi, mem>>

Init == /\ LET i0 == CHOOSE i \in Ino : TRUE IN
           /\ dir = [n \in Names |-> IF n = "main" THEN i0 ELSE NoIno]
           /\ ddir = dir
           /\ vol = [i \in Ino |-> IF i = i0 THEN Img(0, 0) ELSE Blank]
           /\ hist = [i \in Ino |-> {vol[i]}]
           /\ h = i0
        /\ lo = 0 /\ dlo = 0 /\ hi = 0 /\ mem = 0 /\ pc = Idle /\ stg = NoIno /\ crashes = 0 /\ orphan = FALSE

Next == \/ PutBegin \/ PutWal \/ PutSync \/ PutEnd
        \/ CommitBegin \/ Staged("commit") \/ Staged("recover")
        \/ Open \/ Crash \/ PowerLoss

Spec == Init /\ [][Next]_vars

(* ------------------------------ properties ------------------------------ *)
TypeOK == /\ \A n \in Names : dir[n] \in Ino \cup {NoIno} /\ ddir[n] \in Ino \cup {NoIno}
          /\ \A i \in Ino : vol[i] \in hist[i]
          /\ lo <= hi /\ dlo <= lo

\* C04: recovery decides from the crash-left file alone: while a recovery is in progress (and crashes inside it,
\* and recoveries of those) the name keeps showing the same logical state, and that is the state open returns
RecoveryStable == pc[1] = "recover" => (dir["main"] # NoIno /\ Safe(vol[dir["main"]], mem, mem))

\* an acknowledged call that promised durability: checked when the writer is idle with a handle
IdleDurable == (pc = Idle /\ h # NoIno /\ (MixedFaults \/ ~orphan)) => AckDurable

\* PowerSafe restricted to the faults the writer model admits (see MixedFaults)
PowerSafeMC == (MixedFaults \/ ~orphan) => PowerSafe
=============================================================================
