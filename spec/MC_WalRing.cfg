SPECIFICATION Spec
CONSTANTS
  R = 9
  H = 3
  Lens = {0,1,2,3,4,5,6,7}
  MaxSeq = 5
  Defects = {}
INVARIANTS TypeOK NoLossNoResurrection ReportedEqualsExpected PendingBytesExact SeqIsLastAssigned
PROPERTIES RejectedAppendUnchanged AppendGetsNextSeq RefinesWalAbs
CONSTRAINT SeqBound
VIEW View
CHECK_DEADLOCK FALSE
