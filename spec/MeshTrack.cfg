SPECIFICATION Spec
CONSTANTS MaxOps = 3
INVARIANTS UniqueKeys
PROPERTIES Monotone
CHECK_DEADLOCK FALSE
