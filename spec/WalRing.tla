------------------------------ MODULE WalRing ------------------------------
(***************************************************************************)
(* Byte-level (cell-level) model of memvid's embedded write-ahead log      *)
(* (src/io/wal.rs, `EmbeddedWal`).                                         *)
(*                                                                         *)
(* The region is an array of R cells.  A record is H header cells followed *)
(* by `len` payload cells.  The real header is 48 bytes                    *)
(* [seq u64 | len u32 | reserved | blake3(payload)]; here H = 3 cells      *)
(* (seq, len, checksum) and every quantity of the real code is this        *)
(* model's quantity times 16 (48 = 3*16), which is exact because all the   *)
(* arithmetic of the code is linear in (region, head, entry size).         *)
(*                                                                         *)
(* One action per public call of the real object:                          *)
(*   Append(l)   append_entry(payload of l cells)                          *)
(*   Checkpoint  record_checkpoint(&mut header)                            *)
(*   Pending     pending_records()      (re-scans and rewrites sentinel!)  *)
(*   Reopen      EmbeddedWal::open(file, header)                           *)
(*   Stats       stats() / should_checkpoint()  (pure)                     *)
(*                                                                         *)
(* `Defects` selects the as-built deviations from the intended design:     *)
(*   "sentinel_wrap"  write_zero_header wraps to offset 0 when fewer than  *)
(*                    H cells remain and zeroes the first record's header   *)
(*   "head_modulo"    the write head is reduced modulo R, so an append     *)
(*                    that ends exactly at the region end moves it to 0    *)
(*   "empty_accept"   an empty payload is accepted although the scanner    *)
(*                    treats a zero length as corruption                   *)
(* With Defects = {} the module describes the intended design, which must  *)
(* satisfy every invariant below (property C05).                           *)
(***************************************************************************)
EXTENDS Naturals, Sequences, FiniteSets, TLC

CONSTANTS R,        \* region size in cells
          H,        \* header size in cells (3)
          Lens,     \* payload lengths offered to Append
          MaxSeq,   \* bound on sequence numbers (state constraint)
          Defects   \* subset of {"sentinel_wrap","head_modulo","empty_accept"}

VARIABLES mem,      \* [0..R-1 -> cell]
          wh,       \* write_head
          pb,       \* pending_bytes
          seq,      \* sequence
          cseq,     \* checkpoint_sequence (also header.wal_sequence)
          apc,      \* appends_since_checkpoint
          expected, \* ghost: <<seq,len>> of records appended since last checkpoint
          last      \* observation of the last call: [op, arg, res, recs]

vars == <<mem, wh, pb, seq, cseq, apc, expected, last>>
core == <<mem, wh, pb, seq, cseq, apc, expected>>

Z        == [t |-> "Z", s |-> 0, l |-> 0, k |-> 0]
Hd(s,l,k) == [t |-> "H", s |-> s, l |-> l, k |-> k]
Pl(s,k)  == [t |-> "P", s |-> s, l |-> 0, k |-> k]

Min(a,b) == IF a < b THEN a ELSE b

(* ---------------------------- memory writes ---------------------------- *)
WriteZeros(m, pos, n) == [i \in 0..(R-1) |-> IF i >= pos /\ i < pos + n THEN Z ELSE m[i]]

WriteRec(m, pos, s, l) ==
  [i \in 0..(R-1) |->
     IF i >= pos /\ i < pos + H THEN Hd(s, l, i - pos)
     ELSE IF i >= pos + H /\ i < pos + H + l THEN Pl(s, i - pos - H)
     ELSE m[i]]

(* ------------------------------ scan_records --------------------------- *)
(* seq / len fields as the scanner reads them: 0 for a zero cell, the      *)
(* stored value for the right header cell, -1 ("junk", some non-zero       *)
(* number) for anything else.                                              *)
SeqField(c) == IF c.t = "Z" THEN 0 ELSE IF c.t = "H" /\ c.k = 0 THEN c.s ELSE 99
LenField(c) == IF c.t = "Z" THEN 0 ELSE IF c.t = "H" /\ c.k = 1 THEN c.l ELSE 99

ValidRecAt(m, c) ==  \* whole header of one record and its checksum matches the payload
  LET s == m[c].s  l == m[c].l IN
  /\ \A k \in 0..(H-1) : m[c+k] = Hd(s, l, k)
  /\ c + H + l <= R
  /\ \A k \in 0..(l-1) : m[c+H+k] = Pl(s, k)

RECURSIVE ScanFrom(_,_,_)
ScanFrom(m, c, acc) ==
  IF c + H > R THEN [recs |-> acc, next |-> c, err |-> FALSE]
  ELSE LET sq == SeqField(m[c])  ln == LenField(m[c+1]) IN
       IF sq = 0 /\ ln = 0 THEN [recs |-> acc, next |-> c, err |-> FALSE]
       ELSE IF ln = 0 \/ ln = 99 \/ c + H + ln > R THEN [recs |-> acc, next |-> c, err |-> TRUE]
       ELSE IF ValidRecAt(m, c)
            THEN ScanFrom(m, c + H + ln, Append(acc, <<sq, ln>>))
            ELSE [recs |-> acc, next |-> c, err |-> TRUE]

Scan(m) == ScanFrom(m, 0, <<>>)

RECURSIVE FilterAfter(_,_)
FilterAfter(recs, s) ==
  IF recs = <<>> THEN <<>>
  ELSE IF Head(recs)[1] > s THEN <<Head(recs)>> \o FilterAfter(Tail(recs), s)
       ELSE FilterAfter(Tail(recs), s)

RECURSIVE SumSizes(_)
SumSizes(recs) == IF recs = <<>> THEN 0 ELSE H + Head(recs)[2] + SumSizes(Tail(recs))

(* --------------------------- sentinel handling ------------------------- *)
(* write_zero_header(position) -> <<mem', pos'>>                           *)
ZeroHeader(m, position) ==
  LET pos == IF "head_modulo" \in Defects THEN position % R ELSE position
      remaining == R - pos IN
  IF remaining < H
    THEN LET m1 == WriteZeros(m, pos, remaining) IN
         IF "sentinel_wrap" \in Defects THEN <<WriteZeros(m1, 0, H), 0>> ELSE <<m1, pos>>
    ELSE <<WriteZeros(m, pos, H), pos>>

(* maybe_write_sentinel with the given pending_bytes -> <<mem', wh'>>      *)
Sentinel(m, head, pend) == IF pend >= R THEN <<m, head>> ELSE ZeroHeader(m, head)

NormHead(h) == IF "head_modulo" \in Defects THEN h % R ELSE h

(* -------------------------------- actions ------------------------------ *)
Obs(op, arg, res, recs) == [op |-> op, arg |-> arg, res |-> res, recs |-> recs]

Init ==
  /\ mem = [i \in 0..(R-1) |-> Z]
  /\ wh = 0 /\ pb = 0 /\ seq = 0 /\ cseq = 0 /\ apc = 0
  /\ expected = <<>>
  /\ last = Obs("init", 0, "ok", <<>>)

Reject(op, l, why) == /\ UNCHANGED core /\ last' = Obs(op, l, why, <<>>)

AppendOp(l) ==
  LET e == H + l IN
  IF l = 0 /\ "empty_accept" \notin Defects THEN Reject("append", l, "empty")
  ELSE IF e > R THEN Reject("append", l, "small")
  ELSE IF pb + e > R THEN Reject("append", l, "full")
  ELSE LET wrapping == wh + e > R IN
    IF wrapping /\ pb > 0 THEN Reject("append", l, "full")
    ELSE LET w0  == IF wrapping THEN 0 ELSE wh
             m1  == WriteRec(mem, w0, seq + 1, l)
             wh1 == NormHead(w0 + e)
             pb1 == pb + e
             st  == Sentinel(m1, wh1, pb1) IN
         /\ mem' = st[1] /\ wh' = st[2]
         /\ pb' = pb1 /\ seq' = seq + 1 /\ apc' = apc + 1
         /\ cseq' = cseq
         /\ expected' = Append(expected, <<seq + 1, l>>)
         /\ last' = Obs("append", l, "ok", <<>>)

CheckpointOp ==
  LET st == Sentinel(mem, wh, 0) IN
  /\ mem' = st[1] /\ wh' = st[2]
  /\ pb' = 0 /\ apc' = 0 /\ cseq' = seq /\ seq' = seq
  /\ expected' = <<>>
  /\ last' = Obs("checkpoint", 0, "ok", <<>>)

(* records_after(checkpoint_sequence): rescan, recompute, rewrite sentinel *)
Rescan(op, newApc) ==
  LET sc == Scan(mem) IN
  IF sc.err THEN /\ UNCHANGED core /\ last' = Obs(op, 0, "corrupt", <<>>)
  ELSE LET recs == sc.recs
           sq1  == IF recs = <<>> THEN (IF op = "reopen" THEN cseq ELSE seq)
                   ELSE recs[Len(recs)][1]
           pnd  == FilterAfter(recs, cseq)
           pb1  == SumSizes(pnd)
           st   == Sentinel(mem, NormHead(sc.next), pb1) IN
       /\ mem' = st[1] /\ wh' = st[2]
       /\ pb' = pb1 /\ seq' = sq1 /\ cseq' = cseq /\ apc' = newApc
       /\ expected' = expected
       /\ last' = Obs(op, 0, "ok", pnd)

PendingOp == Rescan("pending", apc)
ReopenOp  == Rescan("reopen", 0)

StatsOp == /\ UNCHANGED core /\ last' = Obs("stats", 0, "ok", <<>>)

Next == \/ \E l \in Lens : AppendOp(l)
        \/ CheckpointOp
        \/ PendingOp
        \/ ReopenOp

Spec == Init /\ [][Next]_vars

(* ------------------------------ properties ----------------------------- *)
TypeOK == /\ wh \in 0..R /\ pb \in 0..R /\ seq >= cseq /\ apc >= 0

\* C05: the scan returns exactly the records appended since the last
\* checkpoint, in order; nothing lost, nothing resurrected, never an error.
NoLossNoResurrection ==
  LET sc == Scan(mem) IN ~sc.err /\ FilterAfter(sc.recs, cseq) = expected

\* what a Pending / Reopen call reported is what was expected
ReportedEqualsExpected ==
  last.op \in {"pending", "reopen"} => (last.res = "ok" /\ last.recs = expected)

PendingBytesExact == pb = SumSizes(expected)

SeqIsLastAssigned ==
  IF expected = <<>> THEN seq = cseq ELSE seq = expected[Len(expected)][1]

\* a rejected append must leave the region untouched
RejectedAppendUnchanged ==
  [][ (last'.op = "append" /\ last'.res # "ok") => UNCHANGED core ]_vars

\* a successful append gets the next sequence number and becomes the newest pending record
AppendGetsNextSeq ==
  [][ (last'.op = "append" /\ last'.res = "ok") =>
         /\ seq' = seq + 1
         /\ expected' = Append(expected, <<seq', last'.arg>>) ]_vars

SeqBound == seq <= MaxSeq
=============================================================================
