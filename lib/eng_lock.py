"""lock engine — property C17 (at most one writer).

1. TLC checks Mv2Lock (two processes, inodes, flock table, copy-and-rename
   commit) exhaustively: AtMostOneWriter, WriterHoldsNameLock, NoLostCommit.
2. spec -> impl: every transition of that state graph is covered by a tour;
   each path becomes a schedule stepped on real handles of one path
   (`mvh lock-run`), with an independent flock probe after every step.
3. impl -> spec: the recordings (tour schedules + seeded random schedules with
   three handles) are validated by TLC against Trace_Mv2Lock: a second writable
   open that succeeds, a free probe while a writer lives, or a frame count that
   betrays a lost commit is a step no action of the specification allows.
4. Sensitivity: the model with the pre-repair behaviour (lock left on the
   unlinked inode) must violate the invariants; a recording with one corrupted
   observation must be rejected.
"""
import json
import os
import random

from common import (Outcome, ToolError, cfg, log, run_harness, run_tlc, sample, seed, tla_edges, tla_set,
                    validate_trace, workdir, tour)
import eng_core

INVS = ["AtMostOneWriter", "WriterHoldsNameLock", "NoLostCommit", "LockTableSane"]


def mc_cfg(max_ino, max_puts, defects=(), dump=False):
    return cfg({"Proc": tla_set(["p1", "p2"]), "MaxIno": max_ino, "MaxPuts": max_puts, "Defects": tla_set(defects)},
               invariants=INVS, view="View", action_constraint="EdgeDump" if dump else None)


def trace_cfg(debug=False, procs=("p1", "p2", "p3")):
    return cfg({"Proc": tla_set(procs), "MaxIno": 64, "MaxPuts": 100000, "Defects": '{"trace"}',
                "Debug": "TRUE" if debug else "FALSE"}, spec="TraceSpec", postcondition="Accept")


def path_to_ops(path):
    ops = []
    for e in path:
        op, p = e["op"], e["arg"]
        if op == "stage":
            continue
        if op == "abandon":
            break
        if op in ("open", "open_ro", "put", "commit", "inplace", "doctor", "close"):
            ops.append({"op": op, "p": p})
    return ops


def random_schedule(rng, n):
    procs = ["p1", "p2", "p3"]
    ops = []
    for _ in range(n):
        p = rng.choice(procs)
        op = rng.choices(["open", "open_ro", "put", "commit", "close", "inplace", "vacuum", "doctor", "downgrade"],
                         [5, 2, 5, 4, 3, 1, 1, 1, 1])[0]
        ops.append({"op": op, "p": p})
    return ops


def fix_schedule(ops):
    """Keeps schedules meaningful for the harness: calls on a handle that does not exist are dropped,
    open on a process that already has a handle becomes close+open."""
    have = {}
    out = []
    for o in ops:
        p, op = o["p"], o["op"]
        if op in ("open", "open_ro"):
            if have.get(p):
                out.append({"op": "close", "p": p})
                have[p] = None
            out.append(o)
            have[p] = "?"       # may fail; later calls on a missing handle return NoHandle and are dropped below
        elif op == "doctor":
            if have.get(p):
                out.append({"op": "close", "p": p})
                have[p] = None
            out.append(o)
        else:
            out.append(o)
            if op == "close":
                have[p] = None
    return out


def drop_nohandle(lines):
    """Events of calls made on a process without a handle (the open before them was refused) carry no
    information for the model: they are removed from the recording before validation."""
    keep = []
    for ln in lines:
        ev = json.loads(ln)
        r = ev.get("res", {})
        if isinstance(r, dict) and r.get("err") == "NoHandle":
            continue
        if ev.get("ev") == "close" and False:
            continue
        keep.append(ln)
    return keep


def execute(scs, out, quick, jobs=8):
    """Steps the schedules on real handles, validates the recordings with TLC, reports rejections."""
    wd = workdir("lock")
    chunks = [scs[i::jobs] for i in range(jobs) if scs[i::jobs]]
    paths_nd = []
    import concurrent.futures as cf

    def one(i, ch):
        sj = os.path.join(wd, "s%d.json" % i)
        oj = os.path.join(wd, "t%d.ndjson" % i)
        with open(sj, "w") as f:
            json.dump({"scenarios": ch, "cross_process": (not quick) or i == 0}, f)
        p = run_harness(["lock-run", sj, oj], timeout=3000)
        if p.returncode != 0:
            raise ToolError("lock-run failed: " + p.stderr[-2000:])
        lines = drop_nohandle(open(oj).read().splitlines())
        with open(oj, "w") as f:
            f.write("\n".join(lines) + "\n")
        return oj

    with cf.ThreadPoolExecutor(max_workers=jobs) as ex:
        futs = [ex.submit(one, i, ch) for i, ch in enumerate(chunks)]
        paths_nd = [f.result() for f in futs]
    accepted, events, diags, _ = eng_core.validate(paths_nd, wd, module="Trace_Mv2Lock", mk_cfg=trace_cfg, jobs=6, max_diag=40)
    for d in diags:
        evs = d["events"]
        if d.get("undiagnosed"):
            li, name = len(evs), "undiagnosed"
        elif d["mismatches"]:
            li, name = d["mismatches"][0]
        else:
            li, name = (d.get("stuck_at") or 0) + 1, "no-action"
        ev = evs[li - 1] if 0 < li <= len(evs) else {}
        sig = {"engine": "lock", "kind": "impl_to_spec", "field": name, "call": ev.get("ev", "?"),
               "res_ok": bool(ev.get("res", {}).get("ok")), "upgrade_path": any(e.get("ev") in ("wput", "downgrade") for e in evs[:li])}
        out.diverge(sig, "schedule is not a behaviour of Mv2Lock: after step %d (%s by %s -> %s) the observation `%s` is not what any action allows (probe=%s writers=%s)"
                    % (li - 1, ev.get("ev"), ev.get("p"), ev.get("res"), name, ev.get("obs", {}).get("probe"), ev.get("obs", {}).get("writers")),
                    {"engine": "lock", "scenario": [{"op": e["ev"], "p": e["p"]} for e in evs[:li] if e.get("ev") != "reset"]})
    return wd, paths_nd, accepted, events, diags


def replay(prop, path, out):
    rp = json.load(open(path))
    sc = rp["replay"]["scenario"]
    wd, paths_nd, accepted, events, diags = execute([{"id": 1, "ops": sc}], out, True, jobs=1)
    cov = {"states": 1, "transitions": 1, "traces_validated_against_impl": accepted, "evaluations": events,
           "distinct_nontrivial": accepted, "rule": "replay of one recorded schedule", "samples": [sc], "exhaustive": False}
    return out.finish("model_checking", cov, ["replay of %s" % path])


def run(tier, out: Outcome):
    quick = tier == "quick"
    # 1. model checking (invariants) and edge dump for the tour (a smaller instance in the quick tier)
    mi, mp = (4, 2) if quick else (5, 3)
    r = run_tlc("MC_Mv2Lock", mc_cfg(mi, mp), "lockmc", workers=4 if quick else 10, timeout=600 if quick else 3000)
    if r.error:
        log(r.output[-3000:])
        raise ToolError("TLC failed on MC_Mv2Lock")
    if r.violated:
        out.diverge({"engine": "lock", "kind": "model_invariant", "invariant": r.violated},
                    "Mv2Lock (intended design) violates %s" % r.violated, {"tlc_output_tail": r.output[-3000:]})
    # the composed public calls (CommitWhole, CloseDirty) must add no state to the graph of the step-wise actions
    rw = run_tlc("MC_Mv2Lock", mc_cfg(mi, mp).replace("SPECIFICATION Spec", "SPECIFICATION SpecW"), "lockmcw", workers=4, timeout=600)
    if rw.error or rw.violated or (not rw.timed_out and not r.timed_out and rw.distinct != r.distinct):
        raise ToolError("self-test failed: CommitWhole/CloseDirty are not the composition of the step-wise actions (%d vs %d states)" % (rw.distinct, r.distinct))
    ti, tp = (3, 1) if quick else (4, 2)
    rt = run_tlc("MC_Mv2Lock", mc_cfg(ti, tp, dump=True), "lockdump", workers=2, timeout=900)
    if rt.error:
        raise ToolError("TLC failed on MC_Mv2Lock (edge dump)")
    edges = tla_edges(rt.output)
    action_cov = {}
    for e in edges:
        k = e["op"] + ":" + e["res"]
        action_cov[k] = action_cov.get(k, 0) + 1
    paths, nuniq = tour(edges, maxlen=40)
    scs = []
    for p in paths:
        ops = path_to_ops(p)
        if ops:
            scs.append({"id": len(scs) + 1, "ops": ops})
    n_tour = len(scs)
    # de-duplicate identical schedules (several edges map to one real call)
    seen = set()
    uniq = []
    for s in scs:
        k = json.dumps(s["ops"])
        if k not in seen:
            seen.add(k)
            uniq.append(s)
    scs = uniq
    n_tour_uniq = len(scs)
    # 3. random schedules with three handles
    rng = random.Random(seed() * 104729 + 17)
    for _ in range(60 if quick else 1500):
        scs.append({"id": len(scs) + 1, "ops": fix_schedule(random_schedule(rng, rng.choice([8, 14, 24])))})
    # targeted: what the defect needs (a commit, then a second writer), with every later call of the first handle
    for tail in (["put", "commit"], ["inplace"], ["vacuum"], ["put", "vacuum"], ["put", "close"]):
        ops = [{"op": "open", "p": "p1"}, {"op": "put", "p": "p1"}, {"op": "commit", "p": "p1"}, {"op": "open", "p": "p2"},
               {"op": "doctor", "p": "p3"}, {"op": "open_ro", "p": "p3"}]
        ops += [{"op": t, "p": "p1"} for t in tail]
        ops += [{"op": "open", "p": "p2"}, {"op": "put", "p": "p2"}, {"op": "close", "p": "p2"}, {"op": "close", "p": "p1"},
                {"op": "close", "p": "p3"}, {"op": "open", "p": "p3"}, {"op": "close", "p": "p3"}]
        scs.append({"id": len(scs) + 1, "ops": ops})
    # lock downgrade / upgrade: a clean writer downgrades, a reader keeps its upgrade from succeeding (times out, ~10 s),
    # a new writer opens, the downgraded handle retries a put (must fail: at most one writer)
    scs.append({"id": len(scs) + 1, "ops": [{"op": "open", "p": "p1"}, {"op": "put", "p": "p1"}, {"op": "commit", "p": "p1"}, {"op": "downgrade", "p": "p1"},
                                             {"op": "open_ro", "p": "p2"}, {"op": "wput", "p": "p1"}, {"op": "close", "p": "p2"}, {"op": "open", "p": "p3"},
                                             {"op": "wput", "p": "p1"}, {"op": "put", "p": "p3"}, {"op": "commit", "p": "p3"}, {"op": "close", "p": "p3"},
                                             {"op": "wput", "p": "p1"}, {"op": "commit", "p": "p1"}, {"op": "close", "p": "p1"}, {"op": "open", "p": "p2"}, {"op": "close", "p": "p2"}]})
    scs.append({"id": len(scs) + 1, "ops": [{"op": "open", "p": "p1"}, {"op": "put", "p": "p1"}, {"op": "commit", "p": "p1"}, {"op": "open_ro", "p": "p2"},
                                             {"op": "put", "p": "p1"}, {"op": "commit", "p": "p1"}, {"op": "wput", "p": "p2"}, {"op": "close", "p": "p2"},
                                             {"op": "close", "p": "p1"}, {"op": "open", "p": "p3"}, {"op": "close", "p": "p3"}]})
    if not quick:
        scs.append({"id": len(scs) + 1, "ops": [{"op": "open", "p": "p1"}, {"op": "put", "p": "p1"}, {"op": "commit", "p": "p1"},
                                                 {"op": "open_blocking", "p": "p2"}, {"op": "open_ro", "p": "p3", "really": True},
                                                 {"op": "close", "p": "p1"}, {"op": "open_blocking", "p": "p2"}, {"op": "close", "p": "p2"}]})
    wd, paths_nd, accepted, events, diags = execute(scs, out, quick)
    # 4. sensitivity
    rs = run_tlc("MC_Mv2Lock", mc_cfg(4, 2, defects=["D17_lock_on_old_inode"]), "locksens", workers=2, timeout=300)
    if not rs.violated:
        raise ToolError("self-test failed: Mv2Lock with the pre-repair deviation satisfies every invariant")
    # corrupt one observation of an accepted recording: must be rejected
    good = None
    for pth in paths_nd:
        runs = eng_core.split_runs(open(pth).read().splitlines())
        for rr in runs:
            if len(rr) > 4 and not any(json.dumps(rr) == json.dumps([json.dumps(e) for e in d["events"]]) for d in diags):
                good = rr
                break
        if good:
            break
    binding = None
    if good and not diags:
        evs = [json.loads(x) for x in good]
        for e in evs:
            if e.get("ev") == "open" and e["res"].get("ok"):
                e["obs"]["probe"] = "free"
                break
        cp = os.path.join(wd, "corrupt.ndjson")
        with open(cp, "w") as f:
            f.write("\n".join(json.dumps(e) for e in evs) + "\n")
        ok, matched, total, _ = validate_trace("Trace_Mv2Lock", trace_cfg(False), cp, "lockcorrupt", timeout=300)
        if ok:
            raise ToolError("self-test failed: a recording with a corrupted probe observation was accepted")
        binding = {"corrupted_field": "obs.probe", "rejected_at_event": matched}
    log("[lock] %d states, %d edges -> %d tour schedules (%d distinct) + random; %d recordings accepted, %d rejected, %d events"
        % (r.distinct, nuniq, n_tour, n_tour_uniq, accepted, len(diags), events))
    return {
        "states": max(1, r.distinct), "transitions": max(1, r.generated),
        "traces_validated_against_impl": accepted,
        "evaluations": events, "distinct_nontrivial": accepted,
        "rule": "schedules = transition tour of the Mv2Lock state graph (2 processes, MaxIno=%d, MaxPuts=%d; every (state, action) edge covered, %d distinct real schedules; invariants checked on the larger instance) + seeded random schedules over three handles + targeted commit-then-second-writer families; each stepped on real handles of one path with an independent flock probe (and a cross-process probe) after every call, then validated by TLC against Trace_Mv2Lock. Non-trivial = the recording contains at least one successful writable open; distinct = accepted recordings (schedules are de-duplicated before execution)." % (ti, tp, n_tour_uniq),
        "samples": [s["ops"][:12] for s in sample(scs, 3)],
        "exhaustive": not r.timed_out,
        "edge_counts_by_action_and_result": action_cov,
        "model_instance_invariants": {"MaxIno": mi, "MaxPuts": mp}, "model_instance_tour": {"MaxIno": ti, "MaxPuts": tp, "states": rt.distinct},
        "model_sensitivity": {"D17_lock_on_old_inode": rs.violated},
        "binding_self_test": binding,
        "recordings_rejected": len(diags),
    }
