"""Offline reconstruction of directory states from an fsrec log (shim/fsrec.c).

A log is the program-ordered list of file-system mutations one recorded run performed under one directory.
`States(log)` replays it and yields, for chosen crash points, the directory a process crash (every completed system
call persists) or a power loss (un-synced writes may be lost, reordered or torn; un-synced renames may be lost) would
leave behind.
"""
import hashlib
import json
import os


def load_log(path):
    ops = []
    for ln in open(path):
        ln = ln.strip()
        if ln:
            ops.append(json.loads(ln))
    return ops


def rel(name):
    """names are logged relative to the watched dir: 'run-xyz/m.mv2' -> 'm.mv2'; the run dir itself -> ''"""
    name = name.replace(" (deleted)", "")
    return name.split("/", 1)[1] if "/" in name else ""


class FS:
    def __init__(self):
        self.files = {}          # ino -> bytearray (volatile image)
        self.names = {}          # name -> ino (volatile directory)
        self.dur_files = {}      # ino -> bytes at the last fsync
        self.unsynced = {}       # ino -> list of ops since the last fsync
        self.dur_names = {}      # name -> ino as of the last directory fsync (creation: durable at the file's first fsync)

    def apply_to(self, img, op):
        k = op["op"]
        if k == "write":
            data = bytes.fromhex(op["data"])
            a = op["a"]
            if len(img) < a + len(data):
                img.extend(b"\0" * (a + len(data) - len(img)))
            img[a:a + len(data)] = data
        elif k == "trunc":
            n = op["a"]
            if len(img) > n:
                del img[n:]
            else:
                img.extend(b"\0" * (n - len(img)))

    def step(self, op):
        k = op["op"]
        ino = op.get("ino")
        if k in ("mark", "flock"):
            return
        name = rel(op.get("name", ""))
        if k == "create":
            self.files[ino] = bytearray()
            self.names[name] = ino
            self.unsynced[ino] = []
        elif k in ("write", "trunc"):
            if ino not in self.files:
                self.files[ino] = bytearray()
                self.unsynced.setdefault(ino, [])
            self.apply_to(self.files[ino], op)
            self.unsynced.setdefault(ino, []).append(op)
        elif k == "fsync":
            if ino in self.files:
                self.dur_files[ino] = bytes(self.files[ino])
                self.unsynced[ino] = []
                # lenient (ext4-like): the entry of a newly created file is durable once the file is fsynced
                for n, i in self.names.items():
                    if i == ino and n not in self.dur_names and i not in self.dur_names.values():
                        self.dur_names[n] = i
        elif k == "dirsync":
            self.dur_names = dict(self.names)
        elif k == "rename":
            to = rel(op["to"])
            if name in self.names:
                self.names[to] = self.names.pop(name)
        elif k == "unlink":
            self.names.pop(name, None)

    # ---- crash states ---------------------------------------------------
    def process_state(self):
        return {n: bytes(self.files[i]) for n, i in self.names.items() if n and i in self.files}

    def power_states(self, rng, budget):
        """Admissible power-loss directories at this point: (variant label, {name: bytes}).
        Descriptors are enumerated first (cheap), `budget` of them are chosen, and only those images are built."""
        dirs = [("dir=synced", self.dur_names)]
        if self.names != self.dur_names:
            dirs.append(("dir=volatile", self.names))
        desc = []      # (dir label, names, ino varied or None, alt kind, k, others)
        for dlabel, names in dirs:
            inos = [i for n, i in names.items() if n and i in self.files]
            if not inos:
                desc.append((dlabel, names, None, "nofile", 0, "durable"))
                continue
            desc.append((dlabel, names, None, "all-durable", 0, "durable"))
            for i in inos:
                un = self.unsynced.get(i, [])
                for k in range(len(un)):
                    for others in ("volatile", "durable"):
                        desc.append((dlabel, names, i, "prefix", k + 1, others))
                        if un[k]["op"] == "write" and len(un[k]["data"]) >= 8:
                            desc.append((dlabel, names, i, "torn", k, others))
                        if len(un) > 1 and k < len(un) - 1:
                            desc.append((dlabel, names, i, "drop", k, others))
        if len(desc) > budget:
            desc = [desc[0]] + rng.sample(desc[1:], budget - 1)
        out = []
        for (dlabel, names, ino, kind, k, others) in desc:
            inos = [i for n, i in names.items() if n and i in self.files]
            imgs = {}
            for j in inos:
                base = self.dur_files.get(j, b"")
                if j != ino:
                    imgs[j] = bytes(self.files[j]) if (others == "volatile" and ino is not None) else bytes(base)
                    continue
                un = self.unsynced.get(j, [])
                img = bytearray(base)
                if kind == "prefix":
                    for op in un[:k]:
                        self.apply_to(img, op)
                elif kind == "torn":
                    for op in un[:k]:
                        self.apply_to(img, op)
                    half = dict(un[k])
                    half["data"] = un[k]["data"][:len(un[k]["data"]) // 4 * 2]
                    self.apply_to(img, half)
                elif kind == "drop":
                    for q, op in enumerate(un):
                        if q != k:
                            self.apply_to(img, op)
                imgs[j] = bytes(img)
            lab = "%s;%s" % (dlabel, kind if ino is None else "ino%d:%s%d/%d;others-%s" % (inos.index(ino), kind, k, len(self.unsynced.get(ino, [])), others))
            out.append((lab, {n: imgs[i] for n, i in names.items() if n and i in imgs}))
        return out


def digest_state(st):
    h = hashlib.sha1()
    for n in sorted(st):
        h.update(n.encode())
        h.update(b"\0")
        h.update(hashlib.sha1(st[n]).digest())
    return h.hexdigest()


def calls_of(ops):
    """[(call number, call name, first op index, last op index)] from the begin/end marks (indices into ops)."""
    calls = []
    cur = None
    for idx, op in enumerate(ops):
        if op["op"] == "mark":
            t = op["text"].split()
            if t[0] == "begin":
                cur = [int(t[1]), t[2] if len(t) > 2 else "", idx, idx]
            elif t[0] == "end" and cur:
                cur[3] = idx
                calls.append(tuple(cur))
                cur = None
    return calls


def materialise(state, d):
    os.makedirs(d, exist_ok=True)
    for n, b in state.items():
        with open(os.path.join(d, n), "wb") as f:
            f.write(b)
