"""core engine — Mv2Core: real `Memvid` histories validated by TLC against the
API-level specification, plus exhaustive model checking of the specification.

Properties served (attribution by observation, DESIGN §3.3):
  C01 frames/status/uri/order after commit, drop, abandon+reopen, auto-commit, growth
  C06 next_frame_id, ids, parent links        C07 payload ids, blob reader
  C08 status / supersede links / by_uri        C14 embedding ids
  C15 timeline                                 C19 directory listing
  C24 capacity                                 C25 ticket
"""
import json
import os
import random
import concurrent.futures as cf

from common import (Outcome, ToolError, cfg, log, run_harness, run_tlc, sample, seed, tla_set, validate_trace,
                    workdir)
import re

AS_BUILT = ["D08_update_chunked_empty", "D24_pending_ignored", "D24_index_interleaved", "D01_commit_growth", "D26_value_rewritten"]

# which property owns which observation (mismatch name -> property)
OWNER = {
    "frame.uri": "C01", "frame.st": "C08", "frame.role": "C01", "frame.parent": "C06", "frame.sup": "C08",
    "frame.supby": "C08", "frame.ts": "C01", "frame.pay": "C07", "frame.blob": "C07", "frame.emb": "C14",
    "frame.ci": "C06", "frame.cc": "C06", "frame.meta": "C08", "count": "C01", "nfid": "C06", "file.wal_size": "C01",
    "file.wal_seq": "C01", "file.chain_seq": "C01", "file.present": "C01", "handle": "C01", "ticket": "C25",
    "capacity": "C25", "stats.count": "C01", "dir": "C19", "result": None, "timeline": "C15", "by_uri": "C08",
    "put.seq": "C01", "put.nfid": "C06", "verify": "C01", "payload_end": "C24", "doctor.verify": "C21", "vecset": "C14", "ro.file": "C18", "card.query": "C27", "card.temporal": "C27", "card.set": "C27", "card.id": "C27",
    "capacity.accepted": "C24", "capacity.rejected": "C24",
    "card.source": "C26", "card.value": "C26", "card.queue": "C26",
    "card.latest": "C27", "mesh.nodes": "C27", "mesh.edges": "C27", "mesh.ids": "C27", "ticket.verified": "C25", "ticket.binding": "C25", "ticket.signed": "C25",
}


def trace_cfg(debug=False, defects=AS_BUILT):
    return cfg({"H": 48, "R0": 65536, "TierCap": 52428800, "HdrSize": 4096, "Debug": "TRUE" if debug else "FALSE",
                "Defects": tla_set(defects)}, spec="TraceSpec", postcondition="Accept")


# ---------------------------------------------------------------------------
# scenario generators (seeded)
# ---------------------------------------------------------------------------
def rand_meta(rng, p):
    """Abstract descriptive fields (title, track, kind, tags, labels, extra): id > 0 = given, absent = unspecified."""
    return {k: rng.randint(1, 3) for k in ("title", "track", "kind", "tags", "labels", "extra") if rng.random() < p}


def gen_basic(rng, sid, nops=14, big=False):
    ops = [{"op": "create"}]
    pay = 0
    est = 0          # rough estimate of frames that will exist
    uris = ["mv2://a", "mv2://b", "mv2://c", "mv2://d"]
    is_open = True
    for _ in range(nops):
        if not is_open and rng.random() < 0.25:
            d = {"op": "doctor"}
            for k, pr in (("vacuum", 0.3), ("time", 0.3), ("lex", 0.3), ("vec", 0.3), ("dry_run", 0.15)):
                if rng.random() < pr:
                    d[k] = True
            ops += [d, {"op": "verify"}]
            continue
        if not is_open:
            ops.append({"op": rng.choice(["open", "open", "open", "open_ro"])})
            is_open = True
            ro = ops[-1]["op"] == "open_ro"
            if ro:
                for _ in range(rng.randint(0, 3)):
                    ops.append(rng.choice([{"op": "timeline"}, {"op": "by_uri", "uri": rng.choice(uris)}, {"op": "vecset"}, {"op": "verify"}]))
                ops.append({"op": "close"})
                is_open = False
            continue
        c = rng.random()
        if c < 0.42:
            pay += 1
            cls = rng.choices(["text", "bin", "long", "zero"], [5, 3, 2, 1])[0]
            if cls == "long":
                size = rng.choice([2600, 5000, 9000])
            elif big and rng.random() < 0.5:
                size = rng.choice([12000, 20000, 30000, 70000, 140000])
                cls = "bin"
            else:
                size = rng.choice([1, 3, 40, 200, 1500, 2300])
            op = {"op": "put", "uri": rng.choice(uris), "pay": pay, "cls": cls, "size": size, "ts": rng.choice([-5, 0, 0, 7, 7, 100, 2000000000]),
                  "words": [rng.randrange(8) for _ in range(rng.randint(0, 3))]}
            if rng.random() < 0.3:
                op["emb"] = rng.randint(1, 9)
            if rng.random() < 0.5:
                op["meta"] = rand_meta(rng, 0.6)
            ops.append(op)
            est += 1 + (size // 1200 if cls == "long" else 0)
        elif c < 0.52:
            f = rng.randrange(0, max(1, est + 2))
            op = {"op": "update", "frame": f}
            if rng.random() < 0.6:
                pay += 1
                op.update({"pay": pay, "cls": rng.choice(["text", "bin"]), "size": rng.choice([5, 60, 900]), "words": [rng.randrange(8)]})
            if rng.random() < 0.3:
                op["emb"] = rng.randint(1, 9)
            if rng.random() < 0.4:
                op["meta"] = rand_meta(rng, 0.3)
            ops.append(op)
            est += 1
        elif c < 0.62:
            ops.append({"op": "delete", "frame": rng.randrange(0, max(1, est + 2))})
        elif c < 0.76:
            ops.append({"op": "commit"})
        elif c < 0.84:
            ops.append({"op": "close"})
            is_open = False
        elif c < 0.90:
            ops.append({"op": "abandon"})
            is_open = False
        elif c < 0.94:
            q = {"op": "timeline"}
            if rng.random() < 0.5:
                q["since"] = rng.choice([-5, 0, 7])
            if rng.random() < 0.5:
                q["until"] = rng.choice([0, 7, 100])
            if rng.random() < 0.4:
                q["reverse"] = True
            if rng.random() < 0.4:
                q["limit"] = rng.randint(1, 3)
            ops.append(q)
        elif c < 0.96:
            ops.append({"op": "by_uri", "uri": rng.choice(uris + ["mv2://zz"])})
        elif c < 0.98:
            ops.append({"op": "vecset"})
        else:
            ops.append({"op": "vacuum"})
    if is_open:
        ops.append({"op": rng.choice(["close", "abandon"])})
    ops += [{"op": "open_ro"}, {"op": "vecset"}, {"op": "timeline"}, {"op": "close"},
            {"op": "open"}, {"op": "timeline"}, {"op": "vecset"}, {"op": "close"}, {"op": "verify"}]
    return {"id": sid, "ops": ops}


def run_scenarios(scenarios, tag, jobs=8):
    """Executes scenarios on the real crate (parallel processes); returns list of ndjson paths."""
    wd = workdir("core-" + tag)
    chunks = [scenarios[i::jobs] for i in range(jobs) if scenarios[i::jobs]]
    paths = []

    def one(i, ch):
        sj = os.path.join(wd, "s%d.json" % i)
        oj = os.path.join(wd, "t%d.ndjson" % i)
        with open(sj, "w") as f:
            json.dump({"scenarios": ch}, f)
        p = run_harness(["core-run", sj, oj], timeout=3000)
        if p.returncode != 0:
            raise ToolError("core-run failed: " + p.stderr[-2000:])
        return oj

    with cf.ThreadPoolExecutor(max_workers=jobs) as ex:
        futs = [ex.submit(one, i, ch) for i, ch in enumerate(chunks)]
        for f in futs:
            paths.append(f.result())
    return wd, paths


def split_runs(lines):
    runs = []
    cur = []
    for ln in lines:
        if '"ev":"reset"' in ln and cur:
            runs.append(cur)
            cur = []
        cur.append(ln)
    if cur:
        runs.append(cur)
    return runs


def validate(paths, wd, module="Trace_Mv2Core", mk_cfg=trace_cfg, jobs=6, max_diag=48):
    """Returns (accepted_runs, rejected list of dicts {run, event_index, event, mismatches})."""
    all_runs = []
    for p in paths:
        all_runs += split_runs(open(p).read().splitlines())
    batches = [all_runs[i::jobs] for i in range(jobs) if all_runs[i::jobs]]
    accepted = 0
    events = 0
    rejected = []
    deviations = []

    def collect_devs(output, runs):
        found = []
        for (li, name) in re.findall(r'<<"DEVIATION", (\d+), "([^"]+)">>', output):
            li = int(li)
            n = 0
            for rr in runs:
                if li <= n + len(rr):
                    evs = [json.loads(x) for x in rr[:li - n]]
                    found.append({"deviation": name, "events": evs})
                    break
                n += len(rr)
        return found

    def check_batch(bi, runs):
        acc = 0
        ev = 0
        rej = []
        dv = []
        runs = list(runs)
        while runs:
            cur = os.path.join(wd, "v%d.ndjson" % bi)
            with open(cur, "w") as f:
                for r in runs:
                    f.write("\n".join(r) + "\n")
            ok, matched, total, r = validate_trace(module, mk_cfg(False), cur, "cv%d" % bi, timeout=1200)
            if r.error or matched < 0:
                log(r.output[-3000:])
                raise ToolError("TLC failed on " + module)
            dv += collect_devs(r.output, runs)
            if ok:
                acc += len(runs)
                ev += total
                break
            # locate the run containing the first unmatched line
            n = 0
            bad_i = None
            for i, rr in enumerate(runs):
                if matched < n + len(rr):
                    bad_i = i
                    break
                n += len(rr)
            if bad_i is None:
                bad_i = len(runs) - 1
            acc += bad_i
            ev += matched
            bad = runs[bad_i]
            rej.append(bad)
            runs = runs[bad_i + 1:]
        return acc, ev, rej, dv

    with cf.ThreadPoolExecutor(max_workers=jobs) as ex:
        futs = [ex.submit(check_batch, i, b) for i, b in enumerate(batches)]
        for f in futs:
            a, e, rj, dv = f.result()
            accepted += a
            events += e
            rejected += rj
            deviations += dv
    # diagnosis runs (in parallel): which observations mismatch
    def diagnose(kb):
        k, bad = kb
        cur = os.path.join(wd, "d%d.ndjson" % k)
        with open(cur, "w") as f:
            f.write("\n".join(bad) + "\n")
        ok, matched, total, r = validate_trace(module, mk_cfg(True), cur, "cd%d" % k, timeout=600)
        mm = re.findall(r'<<"MISMATCH", (\d+), "([^"]+)">>', r.output)
        evs = [json.loads(x) for x in bad]
        names = []
        seen = set()
        for (li, name) in mm:
            li = int(li)
            if (li, name) in seen:
                continue
            seen.add((li, name))
            names.append((li, name))
        stuck = None
        if matched < total:
            stuck = matched  # 0-based index of the first event no action explains even with observations masked
        return {"events": evs, "mismatches": names, "stuck_at": stuck}

    with cf.ThreadPoolExecutor(max_workers=max(1, jobs)) as ex:
        diags = list(ex.map(diagnose, list(enumerate(rejected[:max_diag]))))
    for bad in rejected[max_diag:]:
        diags.append({"events": [json.loads(x) for x in bad], "mismatches": [], "stuck_at": None, "undiagnosed": True})
    # de-duplicate deviations (a rejected batch is re-validated from its tail)
    seen = set()
    uniq = []
    for d in deviations:
        k = json.dumps(d, sort_keys=True)
        if k not in seen:
            seen.add(k)
            uniq.append(d)
    return accepted, events, diags, uniq


def scenario_of(evs):
    return [e["args"] for e in evs if e.get("ev") != "reset"]


def context_owners(evs, li):
    """A divergence first seen at, or within two calls after, a vacuum / doctor call also belongs to the
    property about that maintenance call (C42 vacuum, C21 doctor)."""
    own = set()
    for e in evs[max(0, li - 3):li]:
        if e.get("ev") == "vacuum":
            own.add("C42")
        elif e.get("ev") == "doctor":
            own.add("C21")
            if e.get("args", {}).get("vacuum"):
                own.add("C42")
    return own


FORBIDDEN_SIDECARS = {"m.mv2-wal", "m.mv2-shm", "m.mv2-lock", "m.mv2-journal", ".m.mv2.wal", ".m.mv2.shm", ".m.mv2.lock", ".m.mv2.journal"}


def report(diags, out, prop, engine="core"):
    """Turns diagnosed rejections into divergences owned by `prop`."""
    n_other = 0
    for d in diags:
        evs = d["events"]
        mine = []
        for (li, name) in d["mismatches"]:
            ev = evs[li - 1] if li - 1 < len(evs) else {}
            owner = OWNER.get(name)
            if name == "result":
                owner = RESULT_OWNER.get(ev.get("ev"), "C01")
            owners = {owner} | context_owners(evs, li)
            if ev.get("ev") in ("create", "open", "open_ro") and any(x in FORBIDDEN_SIDECARS for x in ev.get("obs", {}).get("dir", [])):
                owners.add("C19")       # a call made next to a forbidden sidecar: whatever it did wrong belongs to the single-file guarantee
            if name == "ro.file" or (ev.get("obs", {}).get("ro") and name in ("count", "frame.st", "frame.pay", "frame.uri")):
                owners.add("C18")
            if prop in owners:
                mine.append((li, name, ev))
        if d.get("stuck_at") is not None and not d["mismatches"]:
            ev = evs[d["stuck_at"]] if d["stuck_at"] < len(evs) else {}
            # no action of the specification explains the event: owned by C01 and by the property the call belongs to
            if prop == "C01" or RESULT_OWNER.get(ev.get("ev")) == prop:
                mine.append((d["stuck_at"] + 1, "no-action", ev))
        if d.get("undiagnosed") and prop == "C01":
            mine.append((0, "undiagnosed", {}))
        if not mine:
            n_other += 1
            continue
        li, name, ev = mine[0]
        sig = {"engine": engine, "kind": "impl_to_spec", "field": name, "call": ev.get("ev", "?")}
        res = ev.get("res", {})
        if isinstance(res, dict) and "panic" in res:
            sig["panic"] = True
        detail = "history is not a behaviour of Mv2Core: after call #%d %s the observation `%s` differs from what the specification allows (all mismatches: %s)" % (
            li - 1, ev.get("ev"), name, ", ".join("%s@%d" % (n, i - 1) for i, n, _ in mine[:6]))
        out.diverge(sig, detail, {"engine": engine, "scenario": scenario_of(evs[:li])})
    return n_other


RESULT_OWNER = {"put": "C01", "update": "C08", "delete": "C08", "commit": "C01", "open": "C01", "ticket": "C25",
                "sidecar": "C19", "rm_sidecars": "C19", "signed_ticket": "C25", "bind": "C25", "bind_only": "C25", "unbind": "C25",
                "create": "C19", "open_ro": "C18", "vacuum": "C42", "timeline": "C15", "by_uri": "C08", "doctor": "C21"}


# ---------------------------------------------------------------------------
# engine run (shared by all properties the engine serves; cached per tree state)
# ---------------------------------------------------------------------------
import hashlib
import subprocess
import time
from common import VERIF, WORK, REPO, tla_edges


def tree_key(extra=""):
    h = hashlib.sha1()
    for cmd in (["git", "-C", REPO, "rev-parse", "HEAD"], ["git", "-C", REPO, "diff", "HEAD", "--", "src", "Cargo.toml"],
                ["git", "-C", REPO, "status", "--porcelain", "--", "src"]):
        h.update(subprocess.run(cmd, stdout=subprocess.PIPE).stdout)
    for d in ("spec", "lib", "harness/src", "shim"):
        p = os.path.join(VERIF, d)
        if not os.path.isdir(p):
            continue
        for root, _, files in sorted(os.walk(p)):
            for f in sorted(files):
                if f.endswith((".tla", ".py", ".rs", ".c", ".toml")):
                    h.update(f.encode())
                    h.update(open(os.path.join(root, f), "rb").read())
    h.update(extra.encode())
    return h.hexdigest()[:16]


def cached(name, tier, fn):
    """Engine results are shared between the properties an engine serves: cached under a key
    made of the /repo working tree, the /verif machinery, tier and seed (VERIF_NO_CACHE=1 disables)."""
    key = tree_key("%s|%s|%d" % (name, tier, seed()))
    cdir = os.path.join(WORK, "cache")
    os.makedirs(cdir, exist_ok=True)
    path = os.path.join(cdir, "%s-%s-%s.json" % (name, tier, key))
    import fcntl
    with open(os.path.join(cdir, "%s-%s.lock" % (name, tier)), "w") as lf:
        fcntl.flock(lf, fcntl.LOCK_EX)
        if os.path.exists(path) and os.environ.get("VERIF_NO_CACHE") != "1":
            r = json.load(open(path))
            r["from_cache"] = True
            return r
        t0 = time.time()
        r = fn()
        r["engine_wall_s"] = round(time.time() - t0, 1)
        r["from_cache"] = False
        # keep the cache small
        for f in os.listdir(cdir):
            if f.startswith("%s-%s-" % (name, tier)) and f.endswith(".json"):
                os.remove(os.path.join(cdir, f))
        json.dump(r, open(path, "w"))
        return r


def mc_cfg(max_frames, max_steps, defects):
    return cfg({"H": 0, "R0": 8, "TierCap": 1000, "HdrSize": 0, "Defects": tla_set(defects),
                "MaxFrames": max_frames, "MaxSteps": max_steps, "Uris": tla_set(["u1", "u2"])},
               spec="MCSpec",
               invariants=["LinksConsistent", "SuccessorKeepsUri", "WalNumbersSane", "NextIdPredicts", "ApplyIsAppendOnly",
                           "NothingLostOnCommit", "OneActiveSuccessor", "UriNewest"],
               properties=["TicketMonotone", "RejectedUnchanged"], constraint="Bound", view="View")


def tlc_scenarios(n, depth, sd):
    """spec -> impl: behaviours of MC_Mv2Core generated by TLC's simulator, concretised for the real crate."""
    c = cfg({"H": 0, "R0": 8, "TierCap": 1000, "HdrSize": 0, "Defects": tla_set(AS_BUILT),
             "MaxFrames": 6, "MaxSteps": depth, "Uris": tla_set(["u1", "u2"])},
            spec="MCSpec", invariants=["EmitScenario"], constraint="Bound")
    r = run_tlc("MC_Mv2Core", c, "gen", workers=1, timeout=120, simulate="num=%d" % n,
                extra_args=["-depth", str(depth + 1), "-seed", str(sd)])
    out = []
    seen = set()
    for h in tla_edges(r.output, "SCENARIO"):
        key = json.dumps(h, sort_keys=True)
        if key in seen:
            continue
        seen.add(key)
        ops = []
        for o in h:
            if o["op"] == "put":
                # 1 unit of the 8-unit model region ~ 8 KiB of the real 64 KiB region
                size = max(1, o["units"] * 8192 - 48 - 340 - 1000 * (o["units"] == 1) * 0)
                op = {"op": "put", "uri": "mv2://" + o["uri"], "pay": o["pay"], "ts": o["ts"],
                      "cls": "long" if o["chunks"] else "bin", "size": 2600 if o["chunks"] else size}
                if o["emb"]:
                    op["emb"] = o["emb"]
                ops.append(op)
            elif o["op"] == "update":
                op = {"op": "update", "frame": o["frame"]}
                if o["haspay"]:
                    op.update({"pay": o["pay"], "cls": "bin", "size": 7000})
                ops.append(op)
            elif o["op"] == "ticket":
                ops.append({"op": "ticket", "seq": o["seq"]})
            else:
                ops.append({k: v for k, v in o.items()})
        ops += [{"op": "abandon"}, {"op": "open"}, {"op": "close"}, {"op": "verify"}]
        ops = fix_handles(ops)
        out.append(ops)
        if len(out) >= n:
            break
    return out


def fix_handles(ops):
    """The generator's abandon/close may leave no handle before a trailing call; keep sequences well formed."""
    res = []
    open_ = False
    for o in ops:
        n = o["op"]
        if n in ("create", "open", "open_ro"):
            if open_:
                res.append({"op": "close"})
            open_ = True
        elif n in ("close", "abandon"):
            if not open_:
                continue
            open_ = False
        elif n in ("verify", "doctor"):
            if open_:
                res.append({"op": "close"})
                open_ = False
        else:
            if not open_:
                continue
        res.append(o)
    return res


def engine(tier):
    quick = tier == "quick"
    rng = random.Random(seed() * 7919 + (1 if quick else 2))
    scs = []
    n_basic = 40 if quick else 400
    for i in range(n_basic):
        scs.append(gen_basic(rng, len(scs) + 1, nops=rng.choice([8, 12, 16, 22]), big=(i % 3 == 0)))
    gens = tlc_scenarios(40 if quick else 600, 7 if quick else 9, seed())
    n_tlc = len(gens)
    for ops in gens:
        scs.append({"id": len(scs) + 1, "ops": ops})
    for fam in EXTRA_FAMILIES:
        for sc_ops in fam(rng, quick):
            scs.append({"id": len(scs) + 1, "ops": sc_ops})
    wd, paths = run_scenarios(scs, "eng", jobs=8 if quick else 12)
    accepted, events, diags, devs = validate(paths, wd, jobs=6 if quick else 10)
    # model checking of the specification itself
    mc = run_tlc("MC_Mv2Core", mc_cfg(3, 5 if quick else 7, AS_BUILT), "mc", workers=4 if quick else 10,
                 timeout=240 if quick else 2400)
    if mc.error:
        log(mc.output[-3000:])
        raise ToolError("TLC failed on MC_Mv2Core")
    mct = run_tlc("MC_Mv2Core", cfg({"H": 0, "R0": 8, "TierCap": 1000, "HdrSize": 0, "Defects": "{}", "MaxFrames": 2, "MaxSteps": 9 if quick else 14,
                                     "Uris": tla_set(["u1"])}, spec="TkSpec", invariants=["VerifiedIsBound"],
                                    properties=["TicketMonotone", "RejectedUnchanged", "SignedOnlyAuthentic", "VerifiedOnlyBySigned", "ReopenShowsStored"],
                                    constraint="Bound", view="View"), "mctk", workers=4, timeout=900)
    if mct.error or mct.violated:
        log(mct.output[-3000:])
        raise ToolError("MC_Mv2Core (tickets): TLC failed or a C25 property of the specification is violated (%s)" % mct.violated)
    mcc = run_tlc("CardsTrack", cfg({"MaxCards": 3 if quick else 4, "Times": "{5, 10}"}, invariants=["ContractHolds"]), "mccards", workers=4, timeout=600)
    if mcc.error or mcc.violated:
        raise ToolError("CardsTrack: the transcription violates the C27 contract or TLC failed (%s)" % mcc.violated)
    return {
        "cards_model": {"states": mcc.distinct},
        "ticket_model": {"states": mct.distinct, "transitions": mct.generated},
        "n_scenarios": len(scs), "n_random": n_basic, "n_tlc_generated": n_tlc, "accepted": accepted, "events": events,
        "diags": diags, "deviations": devs,
        "mc": {"states": mc.distinct, "transitions": mc.generated, "violated": mc.violated, "timed_out": mc.timed_out,
               "depth": mc.depth, "wall": round(mc.wall, 1)},
        "samples": [s["ops"][:10] for s in sample(scs, 3)],
    }


EXTRA_FAMILIES = []


# ---------------------------------------------------------------------------
# property-specific scenario families
# ---------------------------------------------------------------------------
def fam_many_small(rng, quick):
    """C01: long runs of small puts: the log fills to 75 % (auto-commit), the head wraps after
    checkpoints and lands near the region end many times."""
    out = []
    for size in ([1500] if quick else [1500, 700, 3100, 5000]):
        n = 70 if quick else 420
        ops = [{"op": "create"}]
        for i in range(n):
            ops.append({"op": "put", "uri": "mv2://d%d" % i, "pay": i + 1, "cls": "bin", "size": size + (i * 37) % 211, "ts": i})
            if i % 29 == 28:
                ops.append({"op": "timeline", "limit": 3})
        ops += [{"op": rng.choice(["close", "abandon"])}, {"op": "open", "full": True}, {"op": "close"}, {"op": "verify"}]
        out.append(ops)
    return out


def fam_tickets(rng, quick):
    """C24/C25: ticket sequences (also across reopen) and capacity boundaries with stored-plain payloads."""
    out = []
    base = 4096 + 65536
    for k in range(3 if quick else 24):
        cap = base + rng.choice([3000, 5000, 9000, 20000])
        ops = [{"op": "create"}, {"op": "ticket", "seq": rng.choice([0, 1, 2, 5]), "cap": cap}]
        seqs = [2, 2, 1, 7, 7, 3, 9]
        pay = 0
        for i in range(rng.randint(6, 12)):
            c = rng.random()
            if c < 0.55:
                pay += 1
                ops.append({"op": "put", "uri": "mv2://c%d" % pay, "pay": pay, "cls": "bin", "size": rng.choice([500, 1000, 2000, 2999, 3000, 3001]), "ts": pay})
            elif c < 0.7:
                ops.append({"op": "commit"})
            elif c < 0.85:
                ops.append({"op": "ticket", "seq": rng.choice(seqs), "cap": cap + rng.choice([0, 4000]), "issuer": rng.choice(["verif", "free-tier", "dashboard"])})
            else:
                ops += [{"op": "close"}, {"op": "open"}]
        ops += [{"op": "close"}, {"op": "open"}, {"op": "ticket", "seq": rng.choice(seqs), "cap": cap}, {"op": "close"}]
        out.append(ops)
    return out


TAMPERS = ["sig_flip", "sig_short", "sig_long", "sig_long2", "sig_zero", "sig_empty", "mem", "issuer", "seq", "exp", "cap", "cap_none", "wrongkey"]


def fam_signed_tickets(rng, quick):
    """C25: signed tickets (valid, tampered in every field, signed by another key, naming another memory, on an unbound
    memory), unsigned tickets with several issuers, bind / bind-only / unbind, all interleaved with commit, reopen and a lost
    handle, so that the copy of the ticket in the file and the one in the handle diverge and meet again."""
    out = []
    # every tamper kind once against a bound memory, followed by the authentic ticket (must still be accepted)
    ops = [{"op": "create"}, {"op": "bind_only", "mem": 1}]
    for i, t in enumerate(TAMPERS):
        ops.append({"op": "signed_ticket", "seq": 5, "cap": 400000, "mem": 1, "tamper": t, "at": 7 * i + 1})
    ops += [{"op": "signed_ticket", "seq": 5, "cap": 400000, "mem": 1}, {"op": "signed_ticket", "seq": 5, "cap": 400000, "mem": 1},
            {"op": "close"}, {"op": "open"}, {"op": "signed_ticket", "seq": 5, "cap": 400000, "mem": 1},
            {"op": "signed_ticket", "seq": 4, "cap": 900000, "mem": 1}, {"op": "signed_ticket", "seq": 6, "cap": 900000, "mem": 1, "tamper": "sig_long"},
            {"op": "signed_ticket", "seq": 6, "cap": 900000, "mem": 1}, {"op": "close"}]
    out.append(ops)
    issuers = ["verif", "free-tier", "memvid.com", "dashboard"]
    for k in range(4 if quick else 60):
        ops = [{"op": "create"}]
        hi = 1
        for i in range(rng.randint(10, 18)):
            c = rng.random()
            seq = rng.choice([hi - 1, hi, hi + 1, hi + 1, hi + 2, 2, 50])
            if c < 0.3:
                t = rng.choice(["none", "none", "none"] + TAMPERS)
                ops.append({"op": "signed_ticket", "seq": seq, "cap": rng.choice([300000, 800000]), "mem": rng.choice([1, 1, 1, 2]), "tamper": t,
                            "issuer": rng.choice(issuers), "exp": rng.choice([0, 3600]), "at": rng.randrange(64)})
            elif c < 0.45:
                ops.append({"op": "ticket", "seq": seq, "cap": rng.choice([300000, 800000]), "issuer": rng.choice(issuers)})
            elif c < 0.6:
                ops.append({"op": "bind_only", "mem": rng.choice([1, 1, 2])})
            elif c < 0.68:
                ops.append({"op": "bind", "mem": rng.choice([1, 2]), "seq": seq, "cap": 500000, "issuer": rng.choice(issuers)})
            elif c < 0.74:
                ops.append({"op": "unbind"})
            elif c < 0.82:
                ops.append({"op": "commit"})
            elif c < 0.9:
                ops += [{"op": "close"}, {"op": "open"}]
            elif c < 0.95:
                ops += [{"op": "abandon"}, {"op": "open"}]
            else:
                ops.append({"op": "put", "uri": "mv2://t%d" % i, "pay": i + 1, "cls": "text", "size": 60, "ts": i})
            hi = max(hi, seq) if ops[-1]["op"] in ("signed_ticket", "ticket", "bind") else hi
        ops += [{"op": "close"}, {"op": "open"}, {"op": "signed_ticket", "seq": hi + 3, "cap": 700000, "mem": 1}, {"op": "close"}]
        out.append(ops)
    return out


def fam_mesh(rng, quick):
    """C27: logic-mesh nodes and edges (merging identities, duplicate edges) interleaved with memory cards, puts, commits,
    reopen, a lost handle, vacuum and doctor; the whole mesh is read back after every step that may have changed it."""
    out = []
    names = ["Ada", "ada", "bob", "ACME", "Paris"]
    kinds = ["person", "organization", "location"]
    links = ["manager", "member", "employer", "related"]

    def node(nm, kind, conf, frame, start):
        return {"op": "mesh_node", "name": nm, "canon": nm.lower(), "kind": kind, "conf": conf, "frame": frame, "start": start, "len": 2}

    # an update that only touches existing identities (same number of nodes and edges), committed on its own, then reopened
    out.append([{"op": "create"}, {"op": "put", "uri": "mv2://m0", "pay": 1, "cls": "text", "size": 80, "ts": 1},
                {"op": "put", "uri": "mv2://m1", "pay": 2, "cls": "text", "size": 80, "ts": 2}, {"op": "commit"},
                node("Ada", "person", 50, 0, 3), node("ACME", "organization", 25, 0, 9),
                {"op": "mesh_edge", "from": "Ada", "cfrom": "ada", "fkind": "person", "to": "ACME", "cto": "acme", "tkind": "organization", "link": "employer", "conf": 50, "frame": 0},
                {"op": "commit"}, {"op": "mesh"}, {"op": "close"}, {"op": "open"}, {"op": "mesh"},
                node("ada", "person", 100, 1, 5), {"op": "commit"}, {"op": "mesh"}, {"op": "close"}, {"op": "open"}, {"op": "mesh"},
                node("ACME", "organization", 75, 1, 12),
                {"op": "mesh_edge", "from": "Ada", "cfrom": "ada", "fkind": "person", "to": "ACME", "cto": "acme", "tkind": "organization", "link": "employer", "conf": 100, "frame": 1},
                {"op": "close"}, {"op": "open_ro"}, {"op": "mesh"}, {"op": "close"}])
    for k in range(3 if quick else 40):
        ops = [{"op": "create"}, {"op": "put", "uri": "mv2://m0", "pay": 1, "cls": "text", "size": 80, "ts": 1}, {"op": "commit"}]
        start = 0
        for i in range(rng.randint(10, 20)):
            c = rng.random()
            if c < 0.35:
                start += 3
                nm = rng.choice(names)
                ops.append({"op": "mesh_node", "name": nm, "canon": nm.lower(), "kind": rng.choice(kinds), "conf": rng.choice([0, 25, 50, 75, 100]),
                            "frame": rng.choice([0, 0, 1, 2]), "start": start, "len": 2})
            elif c < 0.6:
                a, b = rng.choice(names), rng.choice(names)
                ops.append({"op": "mesh_edge", "from": a, "cfrom": a.lower(), "fkind": rng.choice(kinds), "to": b, "cto": b.lower(), "tkind": rng.choice(kinds),
                            "link": rng.choice(links), "conf": rng.choice([25, 50, 100]), "frame": rng.choice([0, 1])})
            elif c < 0.68:
                ops.append({"op": "card_put", "entity": "e1", "slot": "s1", "value": i + 1, "rel": "sets", "event_date": i, "frame": 0})
            elif c < 0.76:
                ops += [{"op": "commit"}, {"op": "mesh"}]
            elif c < 0.84:
                ops += [{"op": "close"}, {"op": "open"}, {"op": "mesh"}]
            elif c < 0.9:
                ops += [{"op": "abandon"}, {"op": "open"}, {"op": "mesh"}]
            elif c < 0.94:
                ops += [{"op": "vacuum"}, {"op": "mesh"}]
            elif c < 0.97:
                ops += [{"op": "close"}, {"op": "doctor"}, {"op": "open"}, {"op": "mesh"}]
            else:
                ops.append({"op": "put", "uri": "mv2://m%d" % (i + 1), "pay": i + 2, "cls": "text", "size": 70, "ts": i + 2})
            if rng.random() < 0.3:
                ops.append({"op": "mesh"})
        ops += [{"op": "mesh"}, {"op": "close"}, {"op": "open_ro"}, {"op": "mesh"}, {"op": "cards"}, {"op": "close"}]
        out.append(ops)
    return out


def fam_legacy(rng, quick):
    """C18: files that carry the legacy lock metadata of an older release in the reserved header bytes: read-only access must
    leave them byte-identical too; a read-write open may clear them."""
    out = []
    for k in range(2 if quick else 8):
        ops = [{"op": "create"}, {"op": "put", "uri": "mv2://l1", "pay": 1, "cls": "text", "size": 90, "ts": 1, "words": [1], "atoms": ["w1"]},
               {"op": "put", "uri": "mv2://l2", "pay": 2, "cls": "bin", "size": 300, "ts": 2}, {"op": "commit"}]
        if k % 2:
            ops.append({"op": "put", "uri": "mv2://l3", "pay": 3, "cls": "text", "size": 50, "ts": 3})      # stays pending in the log
            ops.append({"op": "abandon"})
        else:
            ops.append({"op": "close"})
        ops += [{"op": "legacy_lock"}, {"op": "open_ro", "full": True}, {"op": "timeline"}, {"op": "search", "toks": ["w1"], "top_k": 5, "no_sketch": True},
                {"op": "verify"}, {"op": "close"}, {"op": "open_ro"}, {"op": "close"}, {"op": "open"}, {"op": "close"}, {"op": "open_ro"}, {"op": "close"}]
        out.append(ops)
    return out


def fam_bigfile(rng, quick):
    """C18: a memory larger than the 16 MiB window the footer scan starts with (one multi-megabyte payload grows the log
    region, too): read-only open, reads, verify and letting go of the handle must leave it byte-identical."""
    out = []
    for size in ([9_500_000] if quick else [9_500_000, 17_000_000]):
        out.append([{"op": "create"}, {"op": "put", "uri": "mv2://big/t", "pay": 1, "cls": "text", "size": 300, "ts": 1, "words": [2], "atoms": ["w2"]},
                    {"op": "put", "uri": "mv2://big/b", "pay": 2, "cls": "bin", "size": size, "ts": 2}, {"op": "commit"}, {"op": "close"},
                    {"op": "open_ro", "full": True}, {"op": "timeline"}, {"op": "search", "toks": ["w2"], "top_k": 5, "no_sketch": True},
                    {"op": "verify"}, {"op": "close"}, {"op": "open_ro"}, {"op": "close"}, {"op": "open"}, {"op": "close"}])
    return out


def fam_sidecars(rng, quick):
    """C19, second half: create / open / open_read_only refuse to run next to a forbidden sidecar (-wal -shm -lock -journal and the
    dot-prefixed .wal .shm .lock .journal) and change nothing; other files in the directory do not disturb them."""
    forb = [("-wal", False), ("-shm", False), ("-lock", False), ("-journal", False), (".wal", True), (".shm", True), (".lock", True), (".journal", True)]
    harmless = [("-bak", False), (".wal", False), (".tmp", True), ("-wal", True), ("-walx", False)]
    out = []
    # refused create: nothing is created
    sfx, dot = rng.choice(forb)
    out.append([{"op": "sidecar", "suffix": sfx, "dot": dot}, {"op": "create"}, {"op": "rm_sidecars"}, {"op": "create"},
                {"op": "put", "uri": "mv2://s1", "pay": 1, "cls": "text", "size": 60, "ts": 1}, {"op": "close"}, {"op": "open"}, {"op": "close"}])
    ops = [{"op": "create"}, {"op": "put", "uri": "mv2://s1", "pay": 1, "cls": "text", "size": 60, "ts": 1}, {"op": "commit"},
           {"op": "put", "uri": "mv2://s2", "pay": 2, "cls": "bin", "size": 200, "ts": 2}, {"op": "abandon"}]
    for sfx, dot in forb:
        ops += [{"op": "sidecar", "suffix": sfx, "dot": dot}, {"op": "open"}, {"op": "open_ro"}, {"op": "rm_sidecars"}]
    ops += [{"op": "open_ro"}, {"op": "close"}]
    for sfx, dot in harmless:
        ops += [{"op": "sidecar", "suffix": sfx, "dot": dot}, {"op": "open_ro"}, {"op": "close"}]
    ops += [{"op": "open"}, {"op": "put", "uri": "mv2://s3", "pay": 3, "cls": "text", "size": 40, "ts": 3}, {"op": "commit"}, {"op": "close"}, {"op": "rm_sidecars"},
            {"op": "open"}, {"op": "close"}]
    out.append(ops)
    # a memory whose lexical index is large (well above 64 KiB of segments): reopening it unpacks the index somewhere - not here
    ops = [{"op": "create"}]
    for i in range(130 if quick else 260):
        ops.append({"op": "put", "uri": "mv2://big/%d" % i, "pay": i + 1, "cls": "text", "size": 1000, "ts": i % 13, "words": [i % 8], "atoms": ["w%d" % (i % 8)]})
    ops += [{"op": "commit"}, {"op": "close"}, {"op": "open"}, {"op": "timeline", "limit": 2}, {"op": "search", "toks": ["w3"], "top_k": 3, "no_sketch": True},
            {"op": "close"}, {"op": "open_ro"}, {"op": "timeline", "limit": 2}, {"op": "close"}, {"op": "doctor"}, {"op": "open"}, {"op": "close"}]
    out.append(ops)
    return out


def fam_vec_edges(rng, quick):
    """C14: embeddings given per chunk only (the first embedded content of a memory, and later ones), with and without a parent
    embedding; committed embeddings followed by a log-growing put and a lost handle (replay on open must keep them)."""
    out = []
    out.append([{"op": "create"}, {"op": "put", "uri": "mv2://ce", "pay": 1, "cls": "long", "size": 5000, "ts": 1, "chunk_embs": [1, 2, 3, 4, 5, 6, 7, 8]},
                {"op": "commit"}, {"op": "vecset"}, {"op": "close"}, {"op": "open", "full": True}, {"op": "vecset"},
                {"op": "put", "uri": "mv2://ce2", "pay": 2, "cls": "long", "size": 2700, "ts": 2, "emb": 9, "chunk_embs": [3, 8, 4, 5]},
                {"op": "put", "uri": "mv2://p", "pay": 3, "cls": "text", "size": 80, "ts": 3, "emb": 6}, {"op": "commit"}, {"op": "vecset"},
                {"op": "delete", "frame": 0}, {"op": "commit"}, {"op": "vecset"}, {"op": "close"}, {"op": "open_ro", "full": True}, {"op": "vecset"}, {"op": "close"}])
    for size in ([70000] if quick else [70000, 140000, 300000]):
        out.append([{"op": "create"}, {"op": "put", "uri": "mv2://a", "pay": 1, "cls": "text", "size": 100, "ts": 1, "emb": 2},
                    {"op": "put", "uri": "mv2://b", "pay": 2, "cls": "long", "size": 2600, "ts": 2, "chunk_embs": [4, 5, 6]}, {"op": "commit"}, {"op": "vecset"},
                    {"op": "put", "uri": "mv2://big", "pay": 3, "cls": "bin", "size": size, "ts": 3}, {"op": "abandon"}, {"op": "open", "full": True}, {"op": "vecset"},
                    {"op": "put", "uri": "mv2://c", "pay": 4, "cls": "text", "size": 60, "ts": 4, "emb": 7}, {"op": "close"}, {"op": "open_ro", "full": True},
                    {"op": "vecset"}, {"op": "close"}])
    return out


def fam_timeline(rng, quick):
    """C15: more than 32 active documents with few distinct timestamps, ingested out of chronological order, some deleted or
    superseded; windows whose bounds are timestamps that several documents share; forward, reverse, limited; live, reopened,
    after a doctor rebuild of the time index."""
    out = []
    for k in range(1 if quick else 6):
        n = 48 if quick else rng.choice([34, 48, 80])
        stamps = [-5, 0, 7, 7, 100, 1700000000]
        ops = [{"op": "create"}]
        for i in range(n):
            ops.append({"op": "put", "uri": "mv2://tl/%d" % i, "pay": i + 1, "cls": "text", "size": 40, "ts": rng.choice(stamps)})
            if i == n // 2:
                ops.append({"op": "commit"})
        ops += [{"op": "delete", "frame": rng.randrange(n)}, {"op": "update", "frame": rng.randrange(n), "meta": {"title": 1}}, {"op": "commit"}]
        qs = [{"op": "timeline"}, {"op": "timeline", "reverse": True}, {"op": "timeline", "limit": 5}, {"op": "timeline", "reverse": True, "limit": 7}]
        for t in (-5, 0, 7, 100):
            qs += [{"op": "timeline", "since": t}, {"op": "timeline", "until": t}, {"op": "timeline", "since": t, "until": t},
                   {"op": "timeline", "since": t, "reverse": True, "limit": 3}]
        ops += qs + [{"op": "close"}, {"op": "open"}] + [dict(q) for q in qs] + [{"op": "close"}, {"op": "doctor", "time": True}, {"op": "open_ro"}] + [dict(q) for q in qs[:8]] + [{"op": "close"}]
        out.append(ops)
    return out


def fam_known(rng, quick):
    """Deterministic witnesses of the recorded findings (so a run shows them, and shows when they are gone)."""
    grow = [{"op": "create"},
            {"cls": "text", "op": "put", "pay": 1, "size": 40, "ts": 0, "uri": "mv2://d"},
            {"cls": "bin", "emb": 1, "op": "put", "pay": 2, "size": 20000, "ts": 0, "uri": "mv2://b"},
            {"cls": "bin", "emb": 4, "op": "put", "pay": 3, "size": 70000, "ts": 0, "uri": "mv2://a"},
            {"cls": "bin", "op": "put", "pay": 4, "size": 2300, "ts": 2000000000, "uri": "mv2://a"},
            {"op": "vacuum"},
            {"cls": "bin", "op": "put", "pay": 5, "size": 40, "ts": -5, "uri": "mv2://c"},
            {"cls": "bin", "op": "put", "pay": 6, "size": 20000, "ts": 100, "uri": "mv2://b"},
            {"op": "close"}, {"op": "open"},
            {"cls": "bin", "op": "put", "pay": 7, "size": 12000, "ts": 2000000000, "uri": "mv2://a"},
            {"op": "commit"},
            {"cls": "bin", "op": "put", "pay": 8, "size": 200, "ts": 100, "uri": "mv2://a"},
            {"op": "commit"}, {"op": "close"}, {"op": "open"}, {"op": "close"}]
    upd = [{"op": "create"}, {"cls": "long", "op": "put", "pay": 1, "size": 5000, "ts": 3, "uri": "mv2://c", "words": [2]},
           {"op": "commit"}, {"op": "update", "frame": 0, "emb": 2}, {"op": "commit"}, {"op": "close"}, {"op": "open"}, {"op": "close"}]
    dbl = [{"op": "create"}, {"cls": "bin", "op": "put", "pay": 1, "size": 2300, "ts": 0, "uri": "mv2://b", "emb": 6},
           {"cls": "zero", "op": "put", "pay": 2, "size": 1, "ts": 100, "uri": "mv2://c", "emb": 2}, {"op": "commit"}, {"op": "close"}, {"op": "open"},
           {"op": "update", "frame": 0, "emb": 9}, {"op": "update", "frame": 0}, {"op": "delete", "frame": 0}, {"op": "update", "frame": 0},
           {"op": "commit"}, {"op": "delete", "frame": 1}, {"op": "abandon"}, {"op": "open"}, {"op": "by_uri", "uri": "mv2://b"}, {"op": "close"}]
    return [grow, upd, dbl]


def fam_maintenance(rng, quick):
    """C06/C42/C08: ids and the frame table across vacuum: deletes and updates of the newest and of older frames,
    committed or still pending when vacuum runs, then more puts, reopen."""
    out = []
    variants = [([3], True), ([2, 3], True), ([0], True), ([3], False), ([1, 3], False)]
    if not quick:
        variants += [([0, 1, 2, 3], True), ([2], False), ([3, 2, 1], True)]
    for dels, commit_first in variants:
        ops = [{"op": "create"}]
        for i in range(4):
            ops.append({"op": "put", "uri": "mv2://m%d" % i, "pay": i + 1, "cls": rng.choice(["bin", "text"]), "size": rng.choice([40, 900, 2300]),
                        "ts": i * 3, "words": [i], "meta": {"title": 1, "track": 2, "kind": 1, "tags": 2, "labels": 1, "extra": 2}})
        ops.append({"op": "commit"})
        for d in dels:
            ops.append({"op": "delete", "frame": d})
        if len(out) % 3 == 1:
            ops.append({"op": "update", "frame": 1, "pay": 9, "cls": "bin", "size": 120})
        elif len(out) % 3 == 2:
            ops.append({"op": "update", "frame": 1, "meta": {"title": 3}})
        # (every third variant: no update, so that deleted frames stay at the tail of the table)
        if commit_first:
            ops.append({"op": "commit"})
        ops += [{"op": "vacuum"}, {"op": "timeline"},
                {"op": "put", "uri": "mv2://after", "pay": 10, "cls": "text", "size": 60, "ts": 50, "words": [5]},
                {"op": "by_uri", "uri": "mv2://m3"}, {"op": "commit"}, {"op": "vacuum"}, {"op": "timeline"},
                {"op": rng.choice(["close", "abandon"])}, {"op": "open", "full": True},
                {"op": "put", "uri": "mv2://later", "pay": 11, "cls": "bin", "size": 33, "ts": 51}, {"op": "close"},
                {"op": "open", "full": True}, {"op": "close"}, {"op": "verify"}]
        out.append(ops)
        # the same history maintained through doctor instead of vacuum (C21/C42/C06/C14)
        ops2 = []
        for o in ops:
            if o["op"] == "vacuum":
                ops2 += [{"op": "close"}, {"op": "doctor", "vacuum": True, "vec": rng.random() < 0.5, "lex": rng.random() < 0.5},
                         {"op": "verify"}, {"op": "doctor"}, {"op": "open", "full": True}]
            else:
                ops2.append(dict(o))
        for o in ops2:
            if o["op"] == "put" and o.get("cls") == "bin" and "emb" not in o:
                o["emb"] = 1 + (o["pay"] % 5)
        out.append(fix_handles(ops2))
    return out


def fam_cards(rng, quick):
    """C27: explicit memory cards, temporal queries, persistence through commit / close / reopen / lost handle.
    C26: cards and enrichment-queue entries created by puts (triplet extraction, instant index) when WAL sequence
    numbers and frame ids have drifted apart."""
    out = []
    for _ in range(2 if quick else 12):
        ops = [{"op": "create"}, {"op": "put", "uri": "mv2://src", "pay": 1, "cls": "text", "size": 80, "ts": 1}, {"op": "commit"}]
        ents, slots, times = ["e1", "e2"], ["s1", "s2"], [5, 10, 10, 20]
        def cp():
            d = {"op": "card_put", "entity": rng.choice(ents), "slot": rng.choice(slots), "value": rng.randint(1, 5), "frame": 0,
                 "rel": rng.choice(["sets", "updates", "extends", "retracts", "updates"])}
            d[rng.choice(["event_date", "document_date"])] = rng.choice(times)
            return d
        def queries():
            qs = []
            for e in ents:
                for sl in slots:
                    qs.append({"op": "card_current", "entity": e, "slot": sl})
                    for t in rng.sample([0, 5, 7, 10, 15, 20, 25], 3):
                        qs.append({"op": "card_at", "entity": e, "slot": sl, "t": t})
            return qs
        ops += [cp() for _ in range(rng.randint(2, 6))] + queries() + [{"op": "cards"}, {"op": "commit"}, {"op": "cards"}, {"op": "close"},
                {"op": "open"}, {"op": "cards"}] + queries() + [cp(), cp(), {"op": "cards"}, {"op": "abandon"}, {"op": "open"}, {"op": "cards"}]
        ops += queries()[:6] + [cp(), {"op": "close"}, {"op": "open_ro"}, {"op": "cards"}, {"op": "close"}]
        out.append(ops)
    texts = ["Alice works at Acme Corp. Alice lives in Paris.", "Carol works at Initech. Carol lives in Berlin.",
             "Bob is the manager of Alice. Bob works at Globex."]
    for k in range(1 if quick else 4):
        ops = [{"op": "create"}, {"op": "put", "uri": "mv2://x", "pay": 1, "cls": "text", "size": 60, "ts": 1}, {"op": "commit"},
               {"op": "delete", "frame": 0}, {"op": "commit"}]
        for i, t in enumerate(texts if k % 2 == 0 else texts[:2]):
            ops.append({"op": "put", "uri": "mv2://t%d" % i, "pay": 10 + i, "cls": "raw", "text": t, "ts": 2 + i, "triplets": True, "instant": True,
                        "enable_embedding": i % 2 == 0})
            if k >= 2:
                ops.append({"op": "cards"})
        ops += [{"op": "cards"}, {"op": "commit"}, {"op": "cards"}, {"op": "close"}, {"op": "open"}, {"op": "cards"}, {"op": "close"}]
        out.append(ops)
    # deletes and updates still pending (not committed) when the extracting puts arrive; a document long enough to be chunked whose
    # statements sit beyond the first chunk (the card must not name a frame whose text lacks its value)
    filler = " ".join("Sentence number %d of the filler has nothing to extract." % i for i in range(40))
    long_text = filler[:2000] + " My birthday is March 14. " + filler[:1500] + " Dana works at Hooli."
    ops = [{"op": "create"}, {"op": "put", "uri": "mv2://x0", "pay": 1, "cls": "text", "size": 60, "ts": 1},
           {"op": "put", "uri": "mv2://x1", "pay": 2, "cls": "text", "size": 60, "ts": 2}, {"op": "commit"},
           {"op": "delete", "frame": 0}, {"op": "update", "frame": 1, "meta": {"title": 2}},
           {"op": "put", "uri": "mv2://t0", "pay": 10, "cls": "raw", "text": texts[0], "ts": 3, "triplets": True, "instant": True, "enable_embedding": True},
           {"op": "cards"}, {"op": "delete", "frame": 2},
           {"op": "put", "uri": "mv2://t1", "pay": 11, "cls": "raw", "text": texts[1], "ts": 4, "triplets": True, "instant": True},
           {"op": "put", "uri": "mv2://long", "pay": 12, "cls": "raw", "text": long_text, "ts": 5, "triplets": True},
           {"op": "cards"}, {"op": "commit"}, {"op": "cards"}, {"op": "close"}, {"op": "open"}, {"op": "cards"}, {"op": "close"}]
    out.append(ops)
    # a chunked document (parent + chunk records in the log) FOLLOWED by extracting puts in the same uncommitted window: the
    # frame ids of the later documents must count every record of the long one
    ops = [{"op": "create"}, {"op": "put", "uri": "mv2://x0", "pay": 1, "cls": "text", "size": 60, "ts": 1},
           {"op": "put", "uri": "mv2://long", "pay": 12, "cls": "raw", "text": long_text, "ts": 2, "triplets": True},
           {"op": "put", "uri": "mv2://t0", "pay": 10, "cls": "raw", "text": texts[0], "ts": 3, "triplets": True, "instant": True, "enable_embedding": True},
           {"op": "cards"},
           {"op": "put", "uri": "mv2://t1", "pay": 11, "cls": "raw", "text": texts[1], "ts": 4, "triplets": True, "instant": True},
           {"op": "cards"}, {"op": "commit"}, {"op": "cards"}, {"op": "close"}, {"op": "open"}, {"op": "cards"}, {"op": "close"}]
    out.append(ops)
    # extracting puts after a skip-index commit and before the next full commit
    ops = [{"op": "create"}, {"op": "put", "uri": "mv2://x0", "pay": 1, "cls": "text", "size": 60, "ts": 1},
           {"op": "put", "uri": "mv2://x1", "pay": 2, "cls": "text", "size": 60, "ts": 2},
           {"op": "put", "uri": "mv2://x2", "pay": 3, "cls": "text", "size": 60, "ts": 3}, {"op": "commit_skip"},
           {"op": "put", "uri": "mv2://t0", "pay": 10, "cls": "raw", "text": texts[0], "ts": 4, "triplets": True, "instant": True, "enable_embedding": True},
           {"op": "cards"},
           {"op": "put", "uri": "mv2://t1", "pay": 11, "cls": "raw", "text": texts[1], "ts": 5, "triplets": True, "instant": True},
           {"op": "cards"}, {"op": "commit_skip"}, {"op": "cards"},
           {"op": "put", "uri": "mv2://t2", "pay": 13, "cls": "raw", "text": texts[2], "ts": 6, "triplets": True},
           {"op": "cards"}, {"op": "finalize"}, {"op": "commit"}, {"op": "cards"}, {"op": "close"}, {"op": "open"}, {"op": "cards"}, {"op": "close"}]
    out.append(ops)
    return out


def fam_capacity_edges(rng, quick):
    """C24: chunkable text near the limit; dead bytes of deleted / superseded tail frames across a reopen."""
    out = []
    base = 4096 + 65536
    for size in ([2600] if quick else [2600, 6000]):
        ops = [{"op": "create"}, {"op": "put", "uri": "mv2://s", "pay": 1, "cls": "bin", "size": 32, "ts": 1}, {"op": "commit"},
               {"op": "ticket", "seq": 3, "cap": base + 32 + 100},
               {"op": "put", "uri": "mv2://long", "pay": 2, "cls": "long", "size": size, "ts": 2}, {"op": "commit"}, {"op": "close"}, {"op": "open"}, {"op": "close"}]
        out.append(ops)
    for kill in (["delete"] if quick else ["delete", "update"]):
        ops = [{"op": "create"}, {"op": "put", "uri": "mv2://a", "pay": 1, "cls": "bin", "size": 64, "ts": 1}, {"op": "commit"},
               {"op": "put", "uri": "mv2://b", "pay": 2, "cls": "bin", "size": 2000, "ts": 2}, {"op": "commit"},
               {"op": "ticket", "seq": 3, "cap": base + 64 + 2000 + 5000}]
        ops.append({"op": "delete", "frame": 1} if kill == "delete" else {"op": "update", "frame": 1, "pay": 3, "cls": "bin", "size": 10})
        ops += [{"op": "commit"}, {"op": "close"}, {"op": "open"}]
        # after reopen: sizes around what is left (the dead tail bytes still count until vacuum)
        for k, sz in enumerate([4800, 5200, 6500, 400]):
            ops.append({"op": "put", "uri": "mv2://n%d" % k, "pay": 10 + k, "cls": "bin", "size": sz, "ts": 5 + k})
        ops += [{"op": "commit"}, {"op": "close"}, {"op": "open"}, {"op": "close"}]
        out.append(ops)
    return out


def fam_payload_sizes(rng, quick):
    """C07: every small size of maximally compressible, NUL and prose UTF-8 payloads (sizes at which the compressed
    length meets the raw length), binary payloads, then reads through several blob readers at once."""
    out = []
    for cls in ("rep", "zeros", "prose"):
        ops = [{"op": "create"}]
        sizes = list(range(1, 40)) + ([60, 79, 80, 81, 100] if quick else list(range(40, 130)))
        for i, sz in enumerate(sizes):
            ops.append({"op": "put", "uri": "mv2://%s%d" % (cls, sz), "pay": i + 1, "cls": cls, "size": sz, "ts": i})
            if i % 25 == 24:
                ops.append({"op": "commit"})
        ops += [{"op": "put", "uri": "mv2://bin1", "pay": 900, "cls": "bin", "size": 700, "ts": 1}, {"op": "put", "uri": "mv2://bin2", "pay": 901, "cls": "bin", "size": 1300, "ts": 2},
                {"op": "commit"}, {"op": "close"}, {"op": "open", "full": True}, {"op": "close"}, {"op": "open_ro"}, {"op": "close"}]
        out.append(ops)
    return out


EXTRA_FAMILIES += [fam_capacity_edges, fam_payload_sizes, fam_many_small, fam_tickets, fam_signed_tickets, fam_mesh, fam_legacy, fam_bigfile, fam_sidecars, fam_vec_edges, fam_timeline, fam_known, fam_maintenance, fam_cards]

DEV_OWNER = {"D26_value_rewritten": "C26", "D01_commit_growth": "C01", "D08_update_chunked_empty": "C08", "D24_pending_ignored": "C24",
             "D24_payload_end_beyond_capacity": "C24"}

PROP_NOTE = {
    "C01": "frame table (ids, URIs, status, order, timestamps) after commit / drop / abandon+reopen / auto-commit / log growth",
    "C06": "next_frame_id() before each put, frame ids, chunk parent links, chunk index/count",
    "C07": "payload id of every frame (canonical payload digest), blob reader equality, chunk concatenation",
    "C08": "status, supersedes / superseded_by links, frame_by_uri result, results of update/delete calls",
    "C14": "embedding id of every frame as served by the vector index (frame_embedding)",
    "C15": "exact timeline() sequence for every issued query",
    "C19": "directory listing after every call",
    "C24": "payload end vs capacity after every commit; CapacityExceeded results",
    "C26": "source frame id / URI of every card extracted during a put, whether the frame text contains the card value, enrichment-queue entries (all after the WAL sequence and the frame ids have drifted apart)",
    "C27": "get_current_memory / get_memory_at_time answers (exact card), the explicit card set after commit, close, reopen (rw and ro) and after a lost handle",
    "C18": "a read-only handle leaves bytes, length and mtime of the file unchanged after every call; it shows the last committed frame table (no pending records)",
    "C21": "doctor results (status, verification), the frame table / payloads / embeddings after doctor, a second run reporting Clean",
    "C42": "every observation at or right after vacuum (direct or through doctor): ids, status, payload ids, descriptive fields, embeddings, timeline, verify",
    "C25": "ticket sequence / capacity after every call, TicketSequence results",
}


def run_prop(prop, tier, out):
    r = cached("core", tier, lambda: engine(tier))
    n_other = report(r["diags"], out, prop)
    for d in r["deviations"]:
        if DEV_OWNER.get(d["deviation"]) == prop:
            evs = d["events"]
            last = evs[-1] if evs else {}
            out.diverge({"engine": "core", "kind": "deviation", "deviation": d["deviation"], "call": last.get("ev", "?")},
                        "specification deviation %s was needed to explain call #%d %s" % (d["deviation"], len(evs) - 1, last.get("ev")),
                        {"engine": "core", "scenario": scenario_of(evs)})
    mc = r["mc"]
    if mc["violated"] and prop in ("C01", "C06", "C08", "C25"):
        out.diverge({"engine": "core", "kind": "model_invariant", "invariant": mc["violated"]},
                    "Mv2Core (as built) violates %s in the bounded model" % mc["violated"], {"engine": "core", "mc": mc})
    mine = sum(1 for d in r["diags"] if any(OWNER.get(n) == prop or prop in context_owners(d["events"], li) for li, n in d["mismatches"]))
    return {
        "states": max(1, mc["states"]), "transitions": max(1, mc["transitions"]),
        "traces_validated_against_impl": r["accepted"],
        "samples": r["samples"],
        "evaluations": r["events"], "distinct_nontrivial": r["accepted"],
        "rule": "real Memvid histories (seeded random: %d, TLC-simulated behaviours of MC_Mv2Core concretised: %d, plus targeted families) recorded call by call and validated by TLC against Mv2Core; observations owned by this property: %s. A history is non-trivial when it reaches a commit, reopen or replay; distinct = accepted histories (all generated from distinct seeds/behaviours)." % (r["n_random"], r["n_tlc_generated"], PROP_NOTE.get(prop, "")),
        "exhaustive": False,
        "histories_total": r["n_scenarios"], "histories_rejected": len(r["diags"]), "rejections_owned_by_this_property": mine,
        "rejections_owned_by_other_properties": n_other,
        "deviations_used": sorted(set(d["deviation"] for d in r["deviations"])),
        "model_checking": mc, "engine_result_from_cache": r["from_cache"], "engine_wall_s": r.get("engine_wall_s"),
    }
