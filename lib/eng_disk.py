"""disk engine — C02 (process-crash atomicity), C03 (power-loss durability), C04 (recovery crash-safe and
idempotent), C22 (no panic/hang on crash-left files), plus the crash-left inputs of C21 (doctor) and C18 (read-only).

One recorded run per history: the real crate executes the history under the LD_PRELOAD recorder (shim/fsrec.c), which
logs every file-system mutation with its data and the call boundaries.  From the log the directory is rebuilt OFFLINE as
it would be after a process crash at every mutation and after a power loss (un-synced writes lost / reordered / torn,
un-synced renames lost) at every mutation; the REAL recovery path (Memvid::open, a second open, verify, doctor on a
copy, open_read_only on a copy) runs on every distinct state (`mvh disk-probe`).  Each result becomes a `crash` event
placed after the event of the call that was in flight, and TLC validates the whole recording against Mv2Core
(Trace_Mv2Core!TCrash): the recovered frame table must be the one before or the one after the in-flight call.
"""
import concurrent.futures as cf
import hashlib
import json
import os
import random
import shutil
import subprocess

from common import (Outcome, ToolError, VERIF, cfg, log, run_harness, run_tlc, sample, seed, workdir, build_harness)
import disk2
import eng_core
import fsstate

SHIM = os.path.join(VERIF, "shim", "fsrec.so")
HDR, = (4096,)


def build_shim():
    src = os.path.join(VERIF, "shim", "fsrec.c")
    if not os.path.exists(SHIM) or os.path.getmtime(SHIM) < os.path.getmtime(src):
        import subprocess
        p = subprocess.run(["gcc", "-O2", "-shared", "-fPIC", "-o", SHIM, src, "-ldl", "-lpthread"], stdout=subprocess.PIPE, stderr=subprocess.STDOUT, text=True)
        if p.returncode != 0:
            raise ToolError("building the recorder shim failed: " + p.stdout[-1500:])


# --------------------------------------------------------------------------- histories
def P(uri, pay, cls="text", size=60, ts=1, **kw):
    d = {"op": "put", "uri": uri, "pay": pay, "cls": cls, "size": size, "ts": ts}
    d.update(kw)
    return d


def histories(quick, rng):
    hs = []
    hs.append(("basic", [{"op": "create"}, P("mv2://a", 1, words=[1]), P("mv2://b", 2, "bin", 600, 2, emb=3), {"op": "commit"},
                         P("mv2://c", 3, "text", 200, 3), {"op": "delete", "frame": 0}, {"op": "close"}, {"op": "open"},
                         {"op": "update", "frame": 1, "pay": 4, "cls": "bin", "size": 90}, {"op": "close"}]))
    hs.append(("recovery", [{"op": "create"}, P("mv2://a", 1), {"op": "commit"}, P("mv2://b", 2, "bin", 300, 2), {"op": "delete", "frame": 0},
                            P("mv2://c", 3, "text", 120, 3, emb=2), {"op": "abandon"}, {"op": "open"}, P("mv2://d", 4, "bin", 50, 4),
                            {"op": "commit"}, {"op": "close"}]))
    hs.append(("recovery2", [{"op": "create"}, P("mv2://a", 1), P("mv2://b", 2, "bin", 300, 2), P("mv2://c", 3, "text", 90, 3), {"op": "commit"},
                             {"op": "delete", "frame": 0}, {"op": "update", "frame": 1, "meta": {"title": 2}}, {"op": "abandon"}, {"op": "open"},
                             {"op": "close"}]))
    hs.append(("batch", [{"op": "create"}, {"op": "begin_batch", "skip_sync": True, "no_auto": True}, P("mv2://a", 1), P("mv2://b", 2, "bin", 300, 2),
                         {"op": "commit_skip"}, {"op": "end_batch"}, P("mv2://c", 3, "text", 90, 3), P("mv2://d", 4, "bin", 50, 4), {"op": "close"}]))
    hs.append(("maintenance", [{"op": "create"}, P("mv2://a", 1, "long", 2600, 1), P("mv2://b", 2, "bin", 400, 2), {"op": "commit"},
                               {"op": "ticket", "seq": 5, "cap": 0}, {"op": "delete", "frame": 0}, {"op": "commit"}, {"op": "vacuum"},
                               P("mv2://c", 3, "text", 80, 3), {"op": "close"}]))
    hs.append(("growth", [{"op": "create"}, P("mv2://a", 1, "text", 100, 1, emb=2), {"op": "commit"}, P("mv2://big", 2, "bin", 70000, 2),
                          P("mv2://c", 3, "bin", 30, 3), {"op": "close"}, {"op": "open"}, {"op": "close"}]))
    # commits that carry no log record (only the handle is dirty: a mesh node, a memory card, a binding), and what a crash inside
    # them leaves; the embeddings, cards and mesh committed before must survive
    hs.append(("dirty", [{"op": "create"}, P("mv2://a", 1, "text", 120, 1, emb=1), P("mv2://b", 2, "text", 300, 2), {"op": "commit"},
                         {"op": "mesh_node", "name": "ada", "canon": "ada", "kind": "person", "conf": 50, "frame": 0, "start": 3, "len": 2},
                         {"op": "commit"},
                         {"op": "card_put", "entity": "e1", "slot": "s1", "value": 1, "rel": "sets", "event_date": 5, "frame": 0},
                         {"op": "commit"}, {"op": "bind_only", "mem": 1}, {"op": "close"}, {"op": "open"}, {"op": "close"}]))
    hs.append(("doctor", [{"op": "create"}, P("mv2://a", 1, "text", 100, 1, emb=1), P("mv2://b", 2, "bin", 400, 2), {"op": "commit"},
                          {"op": "delete", "frame": 1}, P("mv2://c", 3, "text", 70, 3), {"op": "abandon"}, {"op": "doctor", "vacuum": True},
                          {"op": "open"}, {"op": "close"}]))
    if not quick:
        for i in range(24):
            sc = eng_core.gen_basic(rng, 100 + i, nops=rng.choice([8, 12, 16]), big=(i % 4 == 0))
            ops = [o for o in sc["ops"] if o["op"] not in ("verify", "vecset", "timeline", "by_uri", "open_ro")]
            hs.append(("random%d" % i, eng_core.fix_handles(ops)))
    return hs


def classify(op, wal_end):
    """Phase of a file operation, for known-finding signatures (structural, not textual)."""
    k = op["op"]
    name = fsstate.rel(op.get("name", ""))
    where = "staging" if name.startswith(".") else "main"
    if k == "write":
        a = op["a"]
        if a < HDR:
            region = "header"
        elif a < wal_end:
            region = "wal"
        else:
            region = "data"
        return "%s-write-%s" % (where, region)
    if k in ("trunc", "fsync", "dirsync", "rename", "unlink", "create"):
        return "%s-%s" % (where, k) if k not in ("dirsync", "rename") else k
    return k


def record(hname, ops, wd):
    d = os.path.join(wd, hname)
    os.makedirs(d, exist_ok=True)
    fixed = os.path.join("/dev/shm" if os.path.isdir("/dev/shm") else wd, "vdisk-%d-%s" % (os.getpid(), hname))
    shutil.rmtree(fixed, ignore_errors=True)
    os.makedirs(fixed)
    sj = os.path.join(d, "scenario.json")
    json.dump({"scenarios": [{"id": 1, "ops": ops}]}, open(sj, "w"))
    out = os.path.join(d, "run.ndjson")
    lg = os.path.join(d, "fsrec.log")
    reg = os.path.join(d, "registry.json")
    for f in (lg, reg):
        if os.path.exists(f):
            os.remove(f)
    p = run_harness(["core-run", sj, out], env={"LD_PRELOAD": SHIM, "FSREC_DIR": fixed, "FSREC_LOG": lg, "MVH_FIXED_DIR": fixed,
                                                "MVH_REGISTRY_OUT": reg}, timeout=900)
    shutil.rmtree(fixed, ignore_errors=True)
    if p.returncode != 0:
        raise ToolError("recorded run failed: " + p.stderr[-1500:])
    return d, out, lg, reg


def enumerate_states(lg, rng, power_budget, base, max_power_points=10**9, scenario=()):
    """Replays the log; every distinct crash directory is written under `base/<digest>/` at once (only digests are kept in
    memory).  Returns ([(call no, call name, op number, kind, variant, phase, digest)], #ops, #mutations, [digests])."""
    ops = fsstate.load_log(lg)
    calls = fsstate.calls_of(ops)
    fs = fsstate.FS()
    in_call = {}
    for (cn, cname, a, b) in calls:
        for i in range(a, b + 1):
            in_call[i] = (cn, cname)
    wal_end = HDR + 65536
    out = []
    uniq = []
    seen = set()
    nmut = 0

    main_sha = {}

    def keep(st):
        dg = fsstate.digest_state(st)
        if dg not in seen:
            seen.add(dg)
            uniq.append(dg)
            fsstate.materialise(st, os.path.join(base, dg))
            if "m.mv2" in st:
                main_sha.setdefault(disk2.sha(st["m.mv2"]), dg)
        return dg

    # calls made inside a begin_batch(skip_sync) .. end_batch window promise no durability: no power-loss states there
    nosync_calls = set()
    inside = False
    for k, o in enumerate(scenario):
        if o.get("op") == "begin_batch" and o.get("skip_sync"):
            inside = True
        if inside:
            nosync_calls.add(k + 1)
        if o.get("op") == "end_batch":
            inside = False
    mut_idx = [i for i, op in enumerate(ops) if op["op"] not in ("mark", "flock") and i in in_call and in_call[i][1] != "abandon"
               and in_call[i][0] not in nosync_calls]
    power_at = set(mut_idx if len(mut_idx) <= max_power_points else rng.sample(mut_idx, max_power_points))
    for idx, op in enumerate(ops):
        if op["op"] == "mark" and op["text"].startswith("end ") and in_call.get(idx, (0, ""))[1] == "abandon":
            # the harness's own juggling (unlink + re-create of the file) is not part of the system under test:
            # what it leaves behind counts as fully durable
            fs.dur_names = dict(fs.names)
            for i, b in fs.files.items():
                fs.dur_files[i] = bytes(b)
                fs.unsynced[i] = []
        if op["op"] in ("mark", "flock"):
            continue
        fs.step(op)
        if op["op"] == "write" and op["a"] == 0 and op.get("b", 0) >= 64 and not fsstate.rel(op.get("name", "")).startswith("."):
            data = bytes.fromhex(op["data"])          # header rewrite: wal_size lives at offset 24
            wal_end = HDR + int.from_bytes(data[24:32], "little")
        if idx not in in_call:
            continue
        cn, cname = in_call[idx]
        if cname in ("abandon",):
            continue          # the harness's own file juggling, not the code under test
        nmut += 1
        enumerate_states.final = fs.process_state()      # directory after the last mutation made by a call of the history
        phase = classify(op, wal_end)
        if op["op"] not in ("fsync", "dirsync"):
            out.append((cn, cname, op.get("n", idx), "process", "prefix", phase, keep(fs.process_state())))
        if power_budget > 0 and idx in power_at and cn not in nosync_calls:
            for lab, st in fs.power_states(rng, power_budget):
                out.append((cn, cname, op.get("n", idx), "power", lab, phase, keep(st)))
    enumerate_states.keep = keep
    enumerate_states.main_sha = main_sha
    return out, len(ops), nmut, uniq


def corruption_states(final, rng, quick, base, keep_fn):
    """C20: single-byte flips per region class, zeroed regions and truncations of a committed, closed file.
    Regions are located from the file's own header / footer (structure only, no memvid code)."""
    data = final.get("m.mv2")
    if not data or len(data) < 4096 + 56:
        return []
    n = len(data)
    wal_off = int.from_bytes(data[16:24], "little")
    wal_size = int.from_bytes(data[24:32], "little")
    toc_off = int.from_bytes(data[8:16], "little")
    data_start = wal_off + wal_size
    classes = [("header.magic_version", 0, 8), ("header.footer_offset", 8, 16), ("header.wal_offset", 16, 24), ("header.wal_size", 24, 32),
               ("header.wal_checkpoint", 32, 40), ("header.wal_sequence", 40, 48), ("header.toc_checksum", 48, 80), ("header.rest", 80, 4096),
               ("wal", wal_off, data_start), ("data", data_start, min(toc_off, n)), ("toc", min(toc_off, n), max(min(toc_off, n), n - 56)), ("footer", n - 56, n)]
    out = []
    per = 6 if quick else 40
    for cname, a, b in classes:
        if b <= a:
            continue
        offs = sorted(set([a, b - 1] + [rng.randrange(a, b) for _ in range(per)]))
        if cname == "wal":
            # the used part of the log is at its start
            offs = sorted(set(offs + [a + k for k in (0, 8, 9, 16, 47, 48, 60, 200, 500, 1000, 1500) if a + k < b]))
        if cname == "data":
            offs = sorted(set(offs + [a + k for k in range(0, min(b - a, 1400), 97 if quick else 23)]))
        gentle = set()
        if cname == "toc":
            # a character inside each stored URI: a flip the TOC still decodes with, and that a reader can see
            pos = a
            while len(gentle) < (8 if quick else 40):
                pos = data.find(b"mv2://", pos, b)
                if pos < 0:
                    break
                gentle.add(pos + 7)
                pos += 6
            offs = sorted(set(offs) | gentle)
        for off in offs:
            img = bytearray(data)
            img[off] ^= 0x01 if off in gentle else rng.choice([0x01, 0x10, 0x80, 0xFF])
            st = {"m.mv2": bytes(img)}
            out.append((cname, "flip", off, keep_fn(st)))
        # zero the whole class / its first half
        for (za, zb, lab) in ((a, b, "zero"), (a, a + max(1, (b - a) // 2), "zero-half")):
            img = bytearray(data)
            img[za:zb] = b"\0" * (zb - za)
            if bytes(img) != data:
                out.append((cname, lab, za, keep_fn({"m.mv2": bytes(img)})))
        # truncate at the class boundary and in its middle
        for cut in (a, (a + b) // 2):
            if 0 < cut < n:
                out.append((cname, "trunc", cut, keep_fn({"m.mv2": data[:cut]})))
    out += structured_edits(data, n, toc_off, rng, quick, base, keep_fn)
    return out


U64_EDGE = (0, 1, (1 << 31) - 1, 1 << 32, (1 << 63) - 1, 1 << 63, (1 << 64) - 1)


def reseal(img, base):
    """An edited image made self-consistent again (TOC checksum, footer hash, header copy) by `mvh reseal`, so that the edit
    reaches the decoders instead of being stopped by a checksum: an adversarial file (C22), not a corruption (C20)."""
    p = os.path.join(base, "reseal-%d.tmp" % os.getpid())
    with open(p, "wb") as f:
        f.write(img)
    r = subprocess.run([build_harness(), "reseal", p], stdout=subprocess.PIPE, stderr=subprocess.PIPE)
    out = open(p, "rb").read() if r.returncode == 0 else None
    os.remove(p)
    return out


def structured_edits(data, n, toc_off, rng, quick, base, keep_fn):
    """C22: edits of the length fields the layout identifies - the footer's toc_len around every boundary it is compared
    with, the header's footer_offset, and the bincode length prefixes inside the TOC (string lengths in front of every URI,
    the vector lengths at the start) - each as is and re-sealed."""
    out = []
    pos = n - 56
    toc_a = min(toc_off, pos)

    def put(img, cname, kind, off):
        out.append((cname, kind, off, keep_fn({"m.mv2": bytes(img)})))
        rs = reseal(bytes(img), base)
        if rs is not None and rs != bytes(img):
            out.append((cname, kind + "-resealed", off, keep_fn({"m.mv2": rs})))

    vals = [1, 31, 32, pos - toc_a - 1, pos - toc_a + 1, pos - 1, pos, pos + 1, pos + 28, n - 1, n, n + 1] + list(U64_EDGE)
    if quick:
        vals = [vals[i] for i in (0, 3, 4, 6, 7, 8, 10, 11)] + [1 << 32, 1 << 63, (1 << 64) - 1]
    for v in vals:
        if 0 <= v < (1 << 64):
            img = bytearray(data)
            img[pos + 8:pos + 16] = v.to_bytes(8, "little")
            out.append(("footer", "len-edit", v % (1 << 31), keep_fn({"m.mv2": bytes(img)})))
    for v in (0, 4095, 4096, toc_a - 1, toc_a + 1, pos, n, n + 1, 1 << 63, (1 << 64) - 1):
        img = bytearray(data)
        img[8:16] = v.to_bytes(8, "little")
        out.append(("header.footer_offset", "len-edit", v % (1 << 31), keep_fn({"m.mv2": bytes(img)})))
    # bincode length prefixes in the TOC (fixed-width little-endian u64): in front of every stored URI, and the three
    # vector lengths at its start (segments, frames come right after toc_version)
    spots = []
    p = toc_a
    while len(spots) < (3 if quick else 12):
        p = data.find(b"mv2://", p, pos)
        if p < 0:
            break
        if p - 8 >= toc_a:
            spots.append(p - 8)
        p += 6
    spots += [toc_a + 8, toc_a + 16]
    for sp in spots:
        if sp + 8 > pos:
            continue
        old = int.from_bytes(data[sp:sp + 8], "little")
        for v in ([old + 1, 1 << 40, 1 << 63, (1 << 64) - 1] if quick else [0, old - 1, old + 1, old + 4096, 1 << 31, 1 << 40, 1 << 62, 1 << 63, (1 << 64) - 1]):
            if 0 <= v < (1 << 64) and v != old:
                img = bytearray(data)
                img[sp:sp + 8] = v.to_bytes(8, "little")
                put(img, "toc", "len-edit", sp)
    return out


def probe_states(uniq, base, reg, wd, jobs, force_r=(), no_doctor=(), plain=()):
    """Runs the real recovery on each materialised directory; returns digest -> result."""
    keys = list(uniq)
    chunks = [keys[i::jobs] for i in range(jobs) if keys[i::jobs]]
    results = {}

    def one(ci, ch):
        lst = os.path.join(wd, "list%d.txt" % ci)
        with open(lst, "w") as f:
            for k, dg in enumerate(ch):
                flags = "" if dg in plain else ("d" if (k % 3 == 0 and dg not in no_doctor) else "") + ("r" if (k % 3 == 1 or dg in force_r) else "")
                f.write("%s\t%s\t%s\n" % (dg, os.path.join(base, dg), flags))
        outp = os.path.join(wd, "probe%d.ndjson" % ci)
        remaining = list(ch)
        res = {}
        while remaining:
            p = run_harness(["disk-probe", reg, lst, outp], timeout=3600)
            begun = None
            for ln in open(outp):
                e = json.loads(ln)
                if e.get("stage") == "begin":
                    begun = e["tag"]
                else:
                    res[e["tag"]] = e
                    begun = None
            if p.returncode == 0:
                break
            # the probe process died (hang watchdog / abort) while working on `begun`.  Wall-clock limits are load
            # sensitive: the state is probed once more, alone, with a generous limit, before it is called a hang.
            if begun is None:
                raise ToolError("disk-probe failed: " + p.stderr[-1500:])
            one_lst = os.path.join(wd, "retry%d.txt" % ci)
            one_out = os.path.join(wd, "retry%d.ndjson" % ci)
            flags_of = {}
            for ln in open(lst):
                parts = ln.rstrip("\n").split("\t")
                flags_of[parts[0]] = parts[2] if len(parts) > 2 else ""
            with open(one_lst, "w") as f:
                f.write("%s\t%s\t%s\n" % (begun, os.path.join(base, begun), flags_of.get(begun, "")))
            p2 = run_harness(["disk-probe", reg, one_lst, one_out], timeout=3600, env={"MVH_WATCHDOG_S": "240"})
            got = None
            if p2.returncode == 0:
                for ln in open(one_out):
                    e = json.loads(ln)
                    if e.get("stage") != "begin":
                        got = e
            if got is not None:
                res[begun] = got
            else:
                res[begun] = {"tag": begun, "stage": "done", "has_file": True, "res": {"ok": False, "panic": "hang-or-abort rc=%d (twice; 240 s alone)" % p2.returncode},
                              "close": {"ok": True}, "second": {"open": {"ok": False}}, "verify": {"ok": False}, "timeline": {"ok": False},
                              "second_same": False, "obs": {}}
            remaining = remaining[remaining.index(begun) + 1:]
            with open(lst, "w") as f:
                for dg in remaining:
                    f.write("%s\t%s\t\n" % (dg, os.path.join(base, dg)))
        return res

    with cf.ThreadPoolExecutor(max_workers=jobs) as ex:
        futs = [ex.submit(one, i, ch) for i, ch in enumerate(chunks)]
        for f in futs:
            results.update(f.result())
    return results



def owner_of(ev, name):
    if name in ("crash.panic", "crash.doctor.panic", "crash.ro.panic", "corrupt.panic"):
        return "C22"
    if name.startswith("corrupt."):
        return "C20"
    if name.startswith("crash.doctor"):
        return "C21"
    if name.startswith("crash.ro"):
        return "C18"
    if name == "crash.second" or ev.get("callname") == "open":
        return "C04"
    return "C03" if ev.get("kind") == "power" else "C02"


def engine(tier, only=None):
    quick = tier == "quick"
    build_shim()
    build_harness()
    rng = random.Random(seed() * 6151 + (3 if quick else 4))
    wd = workdir("disk")
    hs = only if only is not None else histories(quick, rng)
    jobs = 12
    all_paths = []
    stage2 = []
    stats = {"histories": len(hs), "file_ops": 0, "crash_points": 0, "states": 0, "distinct_states": 0, "process_states": 0, "power_states": 0}
    samples = []
    for hname, ops in hs:
        d, out, lg, reg = record(hname, ops, wd)
        sbase = os.path.join("/dev/shm" if os.path.isdir("/dev/shm") else wd, "vprobe-%d-%s" % (os.getpid(), hname))
        shutil.rmtree(sbase, ignore_errors=True)
        os.makedirs(sbase)
        states, nops, nmut, uniq = enumerate_states(lg, rng, (2 if quick else 5), sbase, max_power_points=(60 if quick else 400), scenario=ops)
        corr = []
        if hname in ("basic", "maintenance", "recovery2") or hname.startswith("random1"):
            # C20: corruptions of the committed, closed file this history ends with
            corr = corruption_states(enumerate_states.final, rng, quick, sbase, enumerate_states.keep)
            stats["corruptions"] = stats.get("corruptions", 0) + len(corr)
        slow = set(c[3] for c in corr if c[0] in ("header.wal_size", "header.wal_offset")) if quick else set()
        # stage 2: the file operations themselves (Trace_Mv2Disk); images stage 1 did not visit are probed too
        main_sha = enumerate_states.main_sha
        raw, extra, after_call, needed = disk2.walk(lg, ops, set(main_sha))
        plain = set()
        for h, img in extra.items():
            tag = "img-" + h
            fsstate.materialise({"m.mv2": img}, os.path.join(sbase, tag))
            uniq.append(tag)
            plain.add(tag)
        extra.clear()
        results = probe_states(uniq, sbase, reg, d, jobs, force_r=set(c[3] for c in corr), no_doctor=slow, plain=plain)
        shutil.rmtree(sbase, ignore_errors=True)
        evs2, chain = disk2.events(raw, after_call, needed, lambda h: results.get(main_sha.get(h, "img-" + h)))
        for e in evs2:
            e["history"] = hname
        stage2.append((hname, ops, evs2))
        stats["stage2_events"] = stats.get("stage2_events", 0) + len(evs2)
        stats["stage2_extra_images"] = stats.get("stage2_extra_images", 0) + len(plain)
        ndist_extra = len(plain)
        ndist = len(uniq) - ndist_extra
        stats["file_ops"] += nops
        stats["crash_points"] += nmut
        stats["states"] += len(states)
        stats["distinct_states"] += ndist
        stats["process_states"] += sum(1 for s in states if s[3] == "process")
        stats["power_states"] += sum(1 for s in states if s[3] == "power")
        base = [ln for ln in open(out).read().splitlines() if ln.strip()]
        by_call = {}
        seen = set()
        for (cn, cname, at, kind, variant, phase, dg) in states:
            key = (cn, kind, dg)
            if key in seen:
                continue        # the same directory for the same in-flight call and crash kind: judged once
            seen.add(key)
            r = dict(results[dg])
            r.update({"ev": "crash", "run": 1, "call": cn, "callname": cname, "at": at, "kind": kind, "variant": variant, "phase": phase,
                      "history": hname})
            r.pop("tag", None)
            r.pop("stage", None)
            by_call.setdefault(cn, []).append(r)
        lines = []
        for ln in base:
            lines.append(ln)
            e = json.loads(ln)
            if e.get("ev") != "reset":
                for r in by_call.get(e.get("n"), []):
                    lines.append(json.dumps(r))
        seen_c = set()
        for (cname, ckind, off, dg) in corr:
            if (cname, ckind, dg) in seen_c:
                continue
            seen_c.add((cname, ckind, dg))
            r = dict(results[dg])
            r.update({"ev": "corrupt", "run": 1, "cls": cname, "ckind": ckind, "off": off, "history": hname, "kind": "corrupt", "callname": "corrupt",
                      "resealed": ckind.endswith("-resealed"),
                      "phase": cname, "variant": ckind, "at": off, "call": 0})
            r.pop("tag", None)
            r.pop("stage", None)
            lines.append(json.dumps(r))
        tp = os.path.join(d, "trace.ndjson")
        with open(tp, "w") as f:
            f.write("\n".join(lines) + "\n")
        all_paths.append(tp)
        if len(samples) < 3:
            samples.append({"history": hname, "calls": [o["op"] for o in ops], "file_operations": nops, "crash_states": len(states)})
        log("[disk] %s: %d file operations, %d crash points, %d states (%d distinct directories)" % (hname, nops, nmut, len(states), ndist))
    accepted, events, diags, devs = eng_core.validate(all_paths, wd, jobs=6, max_diag=60)
    # every rejected recording is re-validated with the offending event removed until it passes, so that
    # one bad state does not hide the others: done inside diagnose() by the Debug run (all mismatches are listed)
    findings = []
    for dgn in diags:
        evs = dgn["events"]
        for (li, name) in dgn["mismatches"]:
            ev = evs[li - 1] if 0 < li <= len(evs) else {}
            if ev.get("ev") not in ("crash", "corrupt"):
                continue
            inflight = next((e for e in evs[:li] if e.get("ev") not in ("reset", "crash") and e.get("n") == ev.get("call")), {})
            findings.append({"owner": owner_of(ev, name), "field": name, "kind": ev.get("kind"), "call": ev.get("callname"),
                             "chunked": bool(inflight.get("x", {}).get("nchunks", 0)),
                             "grew": inflight.get("obs", {}).get("file", {}).get("wal_size", 65536) != 65536 and ev.get("callname") in ("put", "update"),
                             "err": (ev.get("res") or {}).get("err", ""),
                             "phase": ev.get("phase"), "variant": ev.get("variant"), "at": ev.get("at"), "history": ev.get("history"),
                             "res": ev.get("res"), "scenario": [e["args"] for e in evs[:li] if e.get("ev") not in ("reset", "crash", "corrupt")]})
        if dgn.get("stuck_at") is not None and not dgn["mismatches"]:
            findings.append({"owner": "C02", "field": "no-action", "kind": "?", "call": "?", "phase": "?", "variant": "", "at": dgn["stuck_at"],
                             "history": "?", "res": None, "scenario": []})
    f2, acc2 = validate_stage2(stage2, wd, all_paths)
    findings += f2
    stats["stage2_histories_accepted"] = acc2
    if only is None:
        stats["mv2disk_model"] = model_check(quick)
    return {"stats": stats, "accepted": accepted, "events": events, "findings": findings, "samples": samples,
            "undiagnosed": sum(1 for d in diags if d.get("undiagnosed"))}


def mc_cfg(defects=(), mixed=False, ops=3, crashes=3):
    return cfg({"Ino": "<- MCIno", "Names": "<- MCNames", "MaxOps": ops, "MaxCrashes": crashes, "MixedFaults": "TRUE" if mixed else "FALSE",
                "Defects": "{" + ",".join('"%s"' % d for d in defects) + "}"},
               invariants=("TypeOK", "ProcSafe", "PowerSafeMC", "RecoveryStable", "IdleDurable"))


SELF_TESTS = [(("no_wal_fsync",), False, "PowerSafeMC"), (("no_stage_fsync",), False, "PowerSafeMC"), (("no_dirsync",), False, "PowerSafeMC"),
              (("inplace_commit",), False, "ProcSafe"), (("inplace_recovery",), False, "ProcSafe"), ((), True, "PowerSafeMC")]


def model_check(quick):
    """Mv2Disk, the writer with crashes and power losses at every step: the design as built must satisfy the invariants, and
    each named deviation (and the mixed-fault model) must violate the one it is expected to (non-vacuity of the invariants)."""
    jobs = [("asbuilt", mc_cfg(ops=3 if quick else 5, crashes=3 if quick else 4), None)]
    for (defs, mixed, inv) in SELF_TESTS:
        jobs.append(("+".join(defs) or "mixed_faults", mc_cfg(defs, mixed), inv))

    def one(j):
        tag, c, inv = j
        return tag, inv, run_tlc("MC_Mv2Disk", c, "mcdisk-" + tag, workers=2, timeout=1500)

    out = {}
    with cf.ThreadPoolExecutor(max_workers=4) as ex:
        for tag, inv, r in ex.map(one, jobs):
            if inv is None:
                if not r.ok:
                    raise ToolError("Mv2Disk (as built) does not satisfy its invariants: %s\n%s" % (r.violated, r.output[-1500:]))
                out["model_states"] = r.distinct
                out["model_generated"] = r.generated
                out["model_depth"] = r.depth
            else:
                if r.violated != inv:
                    raise ToolError("self-test of Mv2Disk: deviation %s should violate %s, TLC says %s" % (tag, inv, r.violated))
                out.setdefault("deviations_detected", []).append("%s -> %s" % (tag, inv))
    return out


def stage2_cfg():
    return cfg({"Ino": "<- TIno", "Names": "<- TNames", "MaxOps": 0, "MaxCrashes": 0, "MixedFaults": "FALSE", "Defects": "{}", "Debug": "TRUE"},
               spec="TraceSpec", postcondition="Accept")


def validate_stage2(stage2, wd, base_paths):
    """All histories in one TLC run (a `reset` event between them).  Debug = TRUE: a failed check prints MISMATCH and the
    run goes on, so every bad state of every history is listed.  Returns (findings, #histories without mismatch)."""
    if not stage2:
        return [], 0
    lines = []
    where = []          # line number -> (history index, event)
    for hi_, (hname, ops, evs) in enumerate(stage2):
        lines.append(json.dumps({"ev": "reset", "history": hname}))
        where.append((hi_, None))
        for e in evs:
            lines.append(json.dumps(e))
            where.append((hi_, e))
    tp = os.path.join(wd, "disk2.ndjson")
    with open(tp, "w") as f:
        f.write("\n".join(lines) + "\n")
    r = run_tlc("Trace_Mv2Disk", stage2_cfg(), "disk2", workers=1, timeout=1800, depth_first=True, java_opts="-Xmx4g", env={"TRACE": tp})
    import re
    m = re.search(r'"TRACE-RESULT", (\d+), (\d+)', r.output)
    if not m or int(m.group(1)) != len(lines):
        raise ToolError("Trace_Mv2Disk did not consume the recording (%s of %d events): %s" % (m.group(1) if m else "?", len(lines), r.output[-1500:]))
    bad = set()
    findings = []
    for mm in re.finditer(r'"MISMATCH", (\d+), "([a-z.]+)"', r.output):
        li, name = int(mm.group(1)), mm.group(2)
        hidx, ev = where[li - 1]
        if name == "disk.tool":
            raise ToolError("Trace_Mv2Disk met an image whose recovery class was not computed (event %d, history %s)" % (li, stage2[hidx][0]))
        bad.add(hidx)
        hname, ops, evs = stage2[hidx]
        c = ev.get("c", 0)
        callname = ev.get("call") or ev.get("k") or "?"
        base_ev = {}
        try:
            for ln in open(base_paths[hidx]):
                b = json.loads(ln)
                if b.get("n") == c and b.get("ev") not in ("reset", "crash", "corrupt"):
                    base_ev = b
                    break
        except (OSError, IndexError):
            pass
        owner = "C03" if name in ("disk.power", "disk.ack") else ("C04" if callname == "open" else "C02")
        findings.append({"owner": owner, "field": name, "kind": "power" if owner == "C03" else "process", "call": callname,
                         "chunked": bool(base_ev.get("x", {}).get("nchunks", 0)),
                         "grew": base_ev.get("obs", {}).get("file", {}).get("wal_size", 65536) != 65536 and callname in ("put", "update"),
                         "err": "", "phase": ev.get("ev"), "variant": "every image since the last fsync" if owner == "C03" else "prefix",
                         "at": ev.get("at", -1), "history": hname, "res": {"recs": ev.get("recs")},
                         "scenario": ops[:c] if c else ops})
    return findings, len(stage2) - len(bad)


PROP_TEXT = {
    "C02": "process crash at every file operation of every call",
    "C03": "power loss at every file operation (un-synced writes lost, reordered, torn; un-synced renames lost)",
    "C04": "crashes inside open-time recovery; a second open after recovery changes no frame",
    "C22": "no panic / hang of open, second open, verify, timeline, doctor, open_read_only on any reconstructed or corrupted directory",
    "C20": "single-byte flips (sampled per region class: every header field, log, payload/index data, TOC, footer), zeroed regions and truncations of the committed closed files two histories end with: after open, every read must return the original or fail, and verify(deep) must not pass when a read differs",
    "C21": "doctor + verify + second doctor + open on a copy of every third reconstructed directory: frames must be a state the history allows, verify Passed, second run Clean",
    "C18": "open_read_only + reads + verify on a copy of every third reconstructed directory: the file must stay byte-identical and show a committed state the history allows",
}


def sig_of(f):
    return {"engine": "disk", "kind": f["kind"], "call": f["call"], "phase": f["phase"], "field": f["field"],
            "chunked": f.get("chunked", False), "grew": f.get("grew", False), "err": f.get("err", "")}


def run_prop(prop, tier, out: Outcome):
    r = eng_core.cached("disk", tier, lambda: engine(tier))
    mine = [f for f in r["findings"] if f["owner"] == prop]
    seen = set()
    for f in mine:
        sig = sig_of(f)
        key = json.dumps(sig, sort_keys=True)
        if key in seen:
            continue
        seen.add(key)
        n = sum(1 for g in mine if json.dumps(sig_of(g), sort_keys=True) == key)
        out.diverge(sig, "%s crash in `%s` at file operation #%s (%s, %s; history %s): recovery shows `%s` not allowed by the history (open -> %s); %d state(s) with this signature"
                    % (f["kind"], f["call"], f["at"], f["phase"], f["variant"], f["history"], f["field"], json.dumps(f["res"])[:160], n),
                    {"engine": "disk", "scenario": f["scenario"], "crash": {"kind": f["kind"], "at": f["at"], "variant": f["variant"]}})
    st = r["stats"]
    return {
        "states": max(1, st["distinct_states"]), "transitions": max(1, st["states"]),
        "traces_validated_against_impl": r["accepted"], "evaluations": st["states"], "distinct_nontrivial": st["distinct_states"],
        "rule": "histories recorded under the LD_PRELOAD recorder; stage 1: a crash state = the directory after a prefix of the recorded file operations (process crash) or after dropping / reordering / tearing un-synced operations (power loss); each distinct directory is probed with the real recovery and judged by TLC (Trace_Mv2Core!TCrash) against the states the history allows; stage 2: every recorded system call is one event of Trace_Mv2Disk (file-system layer of Mv2Disk: volatile / durable directory, per-inode image and the images it may fall back to), the image a write leaves is abstracted by what the real recovery shows on it, and ProcSafe / PowerSafe / AckDurable are evaluated on every event (all images since the last fsync, not a sample); Mv2Disk itself (writer + crash + power loss + recovery at every step) is model-checked, and each named deviation is shown to violate an invariant. This property: %s. `states` = distinct directories probed, `transitions` = crash states judged (a directory may be reached at several points). Non-trivial = distinct directory." % PROP_TEXT.get(prop, ""),
        "samples": r["samples"], "exhaustive": False,
        "stats": st, "findings_owned": len(mine), "findings_all_properties": len(r["findings"]), "recordings_undiagnosed": r["undiagnosed"],
        "engine_result_from_cache": r["from_cache"], "engine_wall_s": r.get("engine_wall_s"),
    }


def replay(prop, path, out):
    rp = json.load(open(path))
    sc = rp["replay"]["scenario"]
    r = engine("quick", only=[("replay", sc)])
    for f in r["findings"]:
        if f["owner"] == prop:
            out.diverge(sig_of(f), "replayed history: %s crash in `%s` at file operation #%s: `%s`" % (f["kind"], f["call"], f["at"], f["field"]),
                        {"engine": "disk", "scenario": f["scenario"], "crash": {"kind": f["kind"], "at": f["at"], "variant": f["variant"]}})
    st = r["stats"]
    return out.finish("model_checking", {"states": max(1, st["distinct_states"]), "transitions": max(1, st["states"]),
                                         "traces_validated_against_impl": r["accepted"], "evaluations": st["states"],
                                         "distinct_nontrivial": st["distinct_states"], "rule": "replay of one history: all its crash states",
                                         "samples": [sc], "exhaustive": False}, ["replay of %s" % path])
