"""query engine — C09 (recall), C10 (every hit valid), C11 (time travel), C12 (ACL), C13 (exact k-NN),
C16 (pagination), C28 (persisted = in-memory indexes), and the search half of C08.

Seeded corpora (documents over an 8-word vocabulary with tags, timestamps, ACL metadata, integer embeddings) are
ingested into the real Memvid; a battery of queries (single words, boolean expressions printed from random ASTs,
as_of_frame / as_of_ts cut-offs, ACL contexts in audit / enforce mode, paged requests, vector queries, the ask /
adaptive / vector-with-text paths) is issued before the commit, after it, after deletes and updates, after reopening
read-write and read-only, and after a doctor index rebuild.  Every call is one trace event; TLC validates the
recording against Mv2Core + Mv2Query (Trace_Mv2Core: TSearch, TVSearch, TOtherSearch), i.e. each answer must satisfy
the contracts of the specification on the frame table the specification computed.
"""
import json
import random

from common import Outcome, ToolError, log, sample, seed
import eng_core
import eng_func

OWNER = {
    "search.topk": "C10", "search.rank": "C10", "search.sound": "C10", "search.text": "C10", "search.uri": "C10",
    "search.active": "C08", "search.asof": "C11", "search.acl": "C12", "search.enforce": "C12", "search.audit": "C12",
    "search.error": "C12", "search.recall": "C09", "search.pages": "C16", "search.same": "C28", "search.distinct": "C28",
    "vsearch.exact": "C13", "vsearch.dim": "C13", "vsearch.error": "C13", "vsearch.same": "C28",
    "other.active": "C08", "other.acl": "C12", "other.enforce": "C12", "other.asof": "C11", "other.error": "C12",
}
ALSO = {"search.active": ["C10"], "search.sound": ["C28"], "vsearch.same": ["C13"], "search.distinct": ["C10"]}
DEV_OWNER = {"D09_sketch_recall": "C09", "D09_slices_crowd": "C09", "D16_pagination": "C16", "D16_slice_cap": "C16", "D16_candidate_window": "C16"}
AS_BUILT = eng_core.AS_BUILT + ["D16_pagination", "D09_slices_crowd", "D16_slice_cap", "D16_candidate_window"]

VOCAB_WORDS = ["alpha", "bravo", "carbon", "delta", "ember", "fjord", "gamma", "harbor", "connected", "connection", "walked", "walking"]
NW = len(VOCAB_WORDS)
TENANTS = ["acme", "globex"]
ROLES = ["admin", "reader"]
GROUPS = ["g1", "g2"]
PRINC = ["alice", "bob"]


def rand_acl(rng):
    r = rng.random()
    if r < 0.12:
        return None
    shape = rng.choices(["ok", "quoted", "padded", "missing", "no_tenant", "bad_vis", "bad_list"], [10, 1, 1, 1, 1, 1, 1])[0]
    acl = {"shape": shape, "tenant": rng.choice(TENANTS), "vis": rng.choice(["public", "restricted", "restricted"]),
           "roles": rng.sample(ROLES, rng.randint(0, 2)), "groups": rng.sample(GROUPS, rng.randint(0, 1)),
           "principals": rng.sample(PRINC, rng.randint(0, 1))}
    if shape == "bad_list" and not acl["roles"]:
        acl["roles"] = ["admin"]
    return acl


def rand_ctx(rng):
    c = {"roles": rng.sample(ROLES, rng.randint(0, 2)), "groups": rng.sample(GROUPS, rng.randint(0, 1))}
    r = rng.random()
    if r < 0.8:
        c["tenant"] = rng.choice(TENANTS)
    elif r < 0.92:
        # a tenant id that normalises to nothing (blank, or a JSON-quoted blank): the same as no tenant
        c["tenant"] = rng.choice(["", "   ", '""', ' "" ', '"  "'])
        c["blank"] = True
    if rng.random() < 0.6:
        c["subject"] = rng.choice(PRINC)
    return c


def make_corpus(rng, n, long_frac):
    docs = []
    for i in range(n):
        words = sorted(rng.sample(range(NW), rng.randint(0, 3)))
        tags = sorted(rng.sample([1, 2], rng.randint(0, 2)))
        size = rng.choice([1500, 1900, 2300]) if rng.random() < long_frac else rng.choice([40, 90, 200, 400, 700])
        # a third of the short documents repeat their words at the end (several snippet slices per document)
        cls = "text2" if (size in (400, 700) or (size < 1500 and rng.random() < 0.3)) else "text"
        if size < 400 and len(words) >= 2 and rng.random() < 0.35:
            cls = "textc"          # words separated by commas: they are in the document, but no phrase of two of them is
        op = {"op": "put", "uri": "mv2://q/%d" % i, "pay": i + 1, "cls": cls, "size": size, "ts": rng.choice([-50, 0, 0, 10, 10, 500, 86400 * 40]),
              "words": words, "tags": ["tag-%d" % t for t in tags], "atoms": ["w%d" % w for w in words] + ["T%d" % t for t in tags]
              + (["P%d_%d" % (a, b) for a, b in zip(words, words[1:])] if cls != "textc" else [])}
        acl = rand_acl(rng)
        if acl:
            op["acl"] = acl
        if rng.random() < 0.6:
            op["emb"] = rng.randint(1, 9)
        docs.append(op)
    return docs


def battery(rng, qid0, ndocs, quick, light=False):
    qs = []
    qid = [qid0]

    def q(d, keep=True):
        d = dict(d)
        if keep:
            qid[0] += 1
            d["qid"] = qid[0]
        qs.append(d)

    words = list(range(NW))
    for w in ((rng.sample(words[:8], 2) + rng.sample(words[8:], 2)) if (quick or light) else words):
        for ns in (False, True):
            q({"op": "search", "toks": ["w%d" % w], "single": "w%d" % w, "top_k": 200, "no_sketch": ns})
    for _ in range(3 if light else (6 if quick else 14)):
        e = eng_func.q_rand_ast(rng, rng.randint(1, 3), ["w%d" % w for w in words] + ["T1", "T2"])
        q({"op": "search", "toks": eng_func.q_show(e, 0, rng.random() < 0.5), "top_k": rng.choice([1, 3, 10, 50]), "no_sketch": rng.random() < 0.5})
    # quoted phrases of two words (adjacent in some documents, comma-separated or apart in others)
    for _ in range(2 if (quick or light) else 8):
        a = rng.randrange(NW - 1)
        b = rng.randrange(a + 1, min(NW, a + 4))
        q({"op": "search", "toks": ["P%d_%d" % (a, b)], "top_k": 50, "no_sketch": rng.random() < 0.5})
    if not light:
        # time travel
        for _ in range(3 if quick else 6):
            base = {"op": "search", "toks": ["w%d" % rng.choice(words)], "top_k": 50, "with_base": True, "no_sketch": rng.random() < 0.4}
            if rng.random() < 0.5:
                base["as_of_frame"] = rng.randint(0, max(0, ndocs))
            else:
                base["as_of_ts"] = rng.choice([-100, -50, 0, 5, 10, 499, 500])
            q(base, keep=False)
        # ACL
        for _ in range(4 if quick else 10):
            d = {"op": "search", "toks": ["w%d" % rng.choice(words)], "top_k": 50, "with_base": True, "mode": rng.choice(["enforce", "enforce", "audit"]),
                 "no_sketch": True}
            if rng.random() < 0.93:
                d["ctx"] = rand_ctx(rng)
            q(d, keep=False)
        # pagination
        for _ in range(2 if quick else 5):
            q({"op": "search", "toks": ["w%d" % rng.choice(words)], "top_k": rng.choice([1, 2, 3, 5]), "paged": True, "no_sketch": rng.random() < 0.5}, keep=False)
        # uri filter
        q({"op": "search", "toks": ["w%d" % rng.choice(words)], "top_k": 20, "uri": "mv2://q/%d" % rng.randrange(max(1, ndocs)), "no_sketch": True}, keep=False)
        # the other retrieval paths
        for nm in ("vtext", "adaptive", "ask", "ask", "ask"):
            d = {"op": nm, "toks": ["w%d" % rng.choice(words)], "top_k": 10, "emb": rng.randint(1, 9)}
            if nm == "ask" and rng.random() < 0.7:
                # question shapes that take other retrieval routes inside ask (analytical / recency / aggregation)
                w1, w2 = rng.sample(VOCAB_WORDS, 2)
                d["q"] = rng.choice(["compare %s vs %s over time", "what is the difference between %s and %s", "how did %s change compared to %s",
                                     "what is the latest %s and %s", "how many %s mention %s"]) % (w1, w2)
                d.pop("toks")
            if rng.random() < 0.75:
                d["mode"] = "enforce"
                d["ctx"] = rand_ctx(rng)
            q(d, keep=False)
    # vectors
    for _ in range(2 if (quick or light) else 6):
        q({"op": "vsearch", "emb": rng.randint(1, 9), "k": rng.choice([1, 2, 3, 10, 100]), "dim": 4})
    if not light:
        q({"op": "vsearch", "emb": 3, "k": 3, "dim": 3, "stored_dim": 4}, keep=False)
    return qs, qid[0]


def scenario(rng, quick, n):
    docs = make_corpus(rng, n, long_frac=0.35)
    ops = [{"op": "create"}]
    k = max(1, n // 2)
    ops += docs[:k]
    pre, qid = battery(rng, 0, k, quick, light=True)
    ops += [dict(q, **{}) for q in pre if q["op"] in ("search",)]        # C28: searches between put and commit
    for o in ops:
        o.pop("qid", None) if o.get("op") == "search" and False else None
    ops.append({"op": "commit"})
    ops += docs[k:]
    ops.append({"op": "commit"})
    b1, qid = battery(rng, qid, n, quick)
    ops += b1
    # deletes and payload-less updates
    victims = rng.sample(range(n), min(n, rng.randint(1, max(1, n // 4))))
    for v in victims:
        if rng.random() < 0.6:
            ops.append({"op": "delete", "frame": v})
        else:
            ops.append({"op": "update", "frame": v, "meta": {"title": rng.randint(1, 3)}})
    ops.append({"op": "commit"})
    b2, qid = battery(rng, qid, n + len(victims), quick)
    ops += b2
    again = [dict(q) for q in b2 if "qid" in q]
    ops += [{"op": "close"}, {"op": "open"}] + again + [{"op": "close"}, {"op": "open_ro"}] + [dict(q) for q in again] + [{"op": "close"}]
    ops += [{"op": "doctor", "lex": True, "vec": True, "time": True}, {"op": "open"}] + [dict(q) for q in again] + [{"op": "close"}]
    # a later session that mutates before it reads: the persisted indexes must be carried over by its commit
    extra = {"op": "put", "uri": "mv2://q/late", "pay": 900, "cls": "text", "size": 60, "ts": 7, "words": [0], "atoms": ["w0"], "emb": rng.randint(1, 9)}
    late, _ = battery(rng, 5000, n + len(victims) + 1, quick, light=True)
    ops += [{"op": "open"}, extra, {"op": "commit"}] + late + [{"op": "close"}, {"op": "open"}, {"op": "put", "uri": "mv2://q/late2", "pay": 901, "cls": "bin", "size": 50, "ts": 8},
            {"op": "abandon"}, {"op": "open"}] + [dict(q) for q in late if q["op"] == "vsearch"] + [{"op": "vecset"}, {"op": "close"}]
    # the pre-commit queries carried qids of a table that no longer exists: drop their qids
    seen_commit = False
    for o in ops:
        if o["op"] == "commit":
            seen_commit = True
        if not seen_commit and "qid" in o:
            del o["qid"]
    return ops


def pagination_scenario(rng, n, quick):
    """C16: enough matches (>= 30) that the candidate limit of the lexical engine matters."""
    ops = [{"op": "create"}]
    for i in range(n):
        words = [0] + ([1] if i % 3 == 0 else [])
        # every fifth document mentions its words at both ends (two snippet slices: a page may end inside it)
        ops.append({"op": "put", "uri": "mv2://p/%d" % i, "pay": i + 1, "cls": "text2" if i % 5 == 2 else "text", "size": 700 if i % 5 == 2 else rng.choice([40, 90, 200]),
                    "ts": (i * 37) % 7 * 86400,
                    "words": words, "atoms": ["w%d" % w for w in words]})
    ops.append({"op": "commit"})
    for tk in ([1, 2, 3, 7] if quick else [1, 2, 3, 4, 7, 10, 25]):
        for w in (0, 1):
            ops.append({"op": "search", "toks": ["w%d" % w], "top_k": tk, "paged": True, "no_sketch": rng.random() < 0.5})
    ops += [{"op": "close"}, {"op": "open"}, {"op": "search", "toks": ["w0"], "top_k": 4, "paged": True, "no_sketch": True}, {"op": "close"}]
    return ops


def recall_scenario(rng, n, quick):
    """C09 with a small top_k: a corpus much larger than 10 * top_k in which a rare word is planted in a few documents of
    varying length (so that nothing but the word itself makes them rank), searched with top_k just above their number, with and
    without the pre-filter, before and after reopen; and a few documents that yield several snippet slices each."""
    ops = [{"op": "create"}]
    rare = {9: rng.sample(range(n), 4), 11: rng.sample(range(n), 3)}
    for i in range(n):
        words = sorted(set(rng.sample(range(8), rng.randint(1, 3)) + [w for w, ds in rare.items() if i in ds]))
        big = i in rare[9] or rng.random() < 0.2
        ops.append({"op": "put", "uri": "mv2://r/%d" % i, "pay": i + 1, "cls": "text", "size": rng.choice([1200, 1800, 2200]) if big else rng.choice([60, 150, 300]),
                    "ts": i % 11, "words": words, "atoms": ["w%d" % w for w in words]})
    # three documents that mention w10 at both ends (two snippet slices each)
    for j in range(3):
        ops.append({"op": "put", "uri": "mv2://r/multi%d" % j, "pay": n + j + 1, "cls": "text2", "size": 700, "ts": 3, "words": [10], "atoms": ["w10"]})
    ops.append({"op": "commit"})
    qs = []
    for w, k in ((9, 5), (9, 4), (11, 3), (11, 5), (10, 3), (10, 6)):
        for ns in (False, True):
            qs.append({"op": "search", "toks": ["w%d" % w], "single": "w%d" % w, "top_k": k, "no_sketch": ns})
    # C11: a cut-off before the first document that contains the word (nothing admissible matches), pre-filter on and off
    for w in (9, 11):
        first = min(rare[w])
        if first > 0:
            for ns in (False, True):
                qs.append({"op": "search", "toks": ["w%d" % w], "top_k": 10, "as_of_frame": first - 1, "with_base": True, "no_sketch": ns})
        qs.append({"op": "search", "toks": ["w%d" % w], "top_k": 10, "as_of_ts": -1, "with_base": True, "no_sketch": False})
    ops += qs + [{"op": "close"}, {"op": "open"}] + [dict(q) for q in qs] + [{"op": "close"}, {"op": "open_ro"}] + [dict(q) for q in qs[:4]] + [{"op": "close"}]
    return ops


def asof_scenario(rng, quick):
    """C11 with few short documents (sparse sketches): a word that only the newest documents contain, cut-offs just before them
    (by frame and by timestamp, with back-dated and with monotone timestamps), pre-filter on and off, live and reopened."""
    ops = [{"op": "create"}]
    n = 14
    for i in range(n):
        words = [i % 8] + ([9] if i >= n - 2 else [])
        ops.append({"op": "put", "uri": "mv2://a/%d" % i, "pay": i + 1, "cls": "text", "size": rng.choice([40, 60, 90]), "ts": 1000 + i * 10,
                    "words": words, "atoms": ["w%d" % w for w in words]})
    ops.append({"op": "commit"})
    qs = []
    for ns in (False, True):
        for cut in (n - 3, n - 4, 5):
            qs.append({"op": "search", "toks": ["w9"], "top_k": 10, "as_of_frame": cut, "with_base": True, "no_sketch": ns})
        for t in (1000 + (n - 3) * 10, 1000 + (n - 3) * 10 + 5, 1050):
            qs.append({"op": "search", "toks": ["w9"], "top_k": 10, "as_of_ts": t, "with_base": True, "no_sketch": ns})
        qs.append({"op": "search", "toks": ["w9"], "top_k": 10, "as_of_frame": n - 2, "with_base": True, "no_sketch": ns})
    ops += qs + [{"op": "close"}, {"op": "open"}] + [dict(q) for q in qs] + [{"op": "close"}]
    return ops


def asof_prose(rng, quick):
    """The same question on plain one-sentence notes (a dozen words each, nothing else in the text): twelve about a garden, then
    two - the only ones - about a zeppelin.  The model sees the query as the atom w9; the real query is the word itself."""
    topics = ["tomato", "carrot", "lettuce", "fennel", "radish", "spinach", "potato", "onion", "garlic", "celery", "parsnip", "turnip"]
    texts = ["Garden notebook entry: the %s seedlings were watered and weeded today" % t for t in topics]
    texts += ["Aviation history: the zeppelin airship crossed the ocean in three days", "Museum visit: a restored zeppelin gondola is on display in the main hall"]
    ops = [{"op": "create"}]
    for i, t in enumerate(texts):
        ops.append({"op": "put", "uri": "mv2://n/%d" % i, "pay": i + 1, "cls": "raw", "text": t, "ts": 1700000000 + i * 1000,
                    "atoms": ["w9"] if i >= 12 else ["w1"]})
    ops.append({"op": "commit"})
    qs = []
    for ns in (False, True):
        for cut in (11, 10, 3):
            qs.append({"op": "search", "toks": ["w9"], "q": "zeppelin", "top_k": 10, "as_of_frame": cut, "with_base": True, "no_sketch": ns})
        for t in (1700000000 + 11 * 1000, 1700000000 + 11 * 1000 + 500, 1700000000 + 2000):
            qs.append({"op": "search", "toks": ["w9"], "q": "zeppelin", "top_k": 10, "as_of_ts": t, "with_base": True, "no_sketch": ns})
        qs.append({"op": "search", "toks": ["w9"], "q": "zeppelin", "top_k": 10, "as_of_frame": 12, "with_base": True, "no_sketch": ns})
    ops += qs + [{"op": "close"}, {"op": "open"}] + [dict(q) for q in qs] + [{"op": "close"}]
    return ops


def asof_daterange(rng, quick):
    """C11 with a date range in the query: notes from 2023 and 2024, the query asks for a word inside `date:[2024-01-01 TO
    2024-12-31]`, the cut-off (by frame / by timestamp) lies before, inside and after the range - including the case where
    every document of the range is beyond the cut-off (the answer must then be empty, never the documents of the range).
    The model sees the range as the atom D1 (documents of 2024 carry it); the real query is the date-range term."""
    t23, t24 = 1685577600, 1717200000          # 2023-06-01, 2024-06-01
    texts = [(t23, "quantum sensor calibration log for the old laboratory", True),
             (t23 + 86400, "gardening notes about tomatoes and basil", False),
             (t23 + 2 * 86400, "quantum entanglement reading list for the seminar", True),
             (t24, "quantum sensor upgrade plan for the new laboratory", True),
             (t24 + 86400, "quantum budget review with the finance group", True),
             (t24 + 2 * 86400, "cafeteria menu for the spring term", False),
             (t24 - 400 * 86400, "quantum archive note that was filed late", True)]      # back-dated: 2023 by timestamp, newest by frame
    ops = [{"op": "create"}]
    for i, (ts, t, q) in enumerate(texts):
        in24 = 1704067200 <= ts <= 1735603200
        ops.append({"op": "put", "uri": "mv2://d/%d" % i, "pay": i + 1, "cls": "raw", "text": t, "ts": ts,
                    "atoms": (["w9"] if q else ["w1"]) + (["D1"] if in24 else [])})
    ops.append({"op": "commit"})
    q24 = "date:[2024-01-01 TO 2024-12-31] AND quantum"
    q23 = "date:[2023-01-01 TO 2023-12-31] AND quantum"
    qs = []
    for ns in (False, True):
        qs.append({"op": "search", "toks": ["D1", "AND", "w9"], "q": q24, "top_k": 10, "no_sketch": ns})
        for cut in (0, 1, 2, 3, 4, 6):
            qs.append({"op": "search", "toks": ["D1", "AND", "w9"], "q": q24, "top_k": 10, "as_of_frame": cut, "with_base": True, "no_sketch": ns})
        for t in (t23, t23 + 3 * 86400, t24 - 1, t24, t24 + 86400 + 5, t24 + 10 * 86400):
            qs.append({"op": "search", "toks": ["D1", "AND", "w9"], "q": q24, "top_k": 10, "as_of_ts": t, "with_base": True, "no_sketch": ns})
    ops += qs + [{"op": "close"}, {"op": "open_ro"}] + [dict(q) for q in qs] + [{"op": "close"}, {"op": "open"}] + [dict(q) for q in qs[:8]] + [{"op": "close"}]
    return ops


def presize_scenario(rng, quick):
    """C28 / C40: the log region grows (batch pre-sizing, an oversized pending put) while nothing rewrites the indexes; the
    committed documents must still be found by a reopened handle and by a read-only one."""
    docs = make_corpus(rng, 10, long_frac=0.0)
    for d in docs:
        d.pop("acl", None)
    ops = [{"op": "create"}] + docs + [{"op": "commit"}]
    qs = []
    qid = 7000
    for w in range(8):
        qid += 1
        qs.append({"op": "search", "toks": ["w%d" % w], "single": "w%d" % w, "top_k": 200, "no_sketch": True, "qid": qid})
    qs += [{"op": "timeline"}, {"op": "vecset"}]
    ops += qs + [{"op": "begin_batch", "skip_sync": False, "no_auto": True, "presize": 262144}, {"op": "end_batch"}, {"op": "close"},
                 {"op": "open"}] + [dict(q) for q in qs] + [{"op": "close"}, {"op": "open_ro"}] + [dict(q) for q in qs] + [{"op": "close"}]
    # an oversized put left pending (the region grows again), the handle lost: replay must keep every index intact
    ops += [{"op": "open"}, {"op": "begin_batch", "skip_sync": True, "no_auto": True},
            {"op": "put", "uri": "mv2://q/huge", "pay": 500, "cls": "bin", "size": 400000, "ts": 9},
            {"op": "abandon"}, {"op": "open_ro"}] + [dict(q) for q in qs] + [{"op": "close"}, {"op": "open"}] + [dict(q) for q in qs[:8]] + [{"op": "close"}]
    return ops


def pagination_small(rng, quick):
    """C16 where nothing as built excuses a difference: fewer matching documents than the smallest candidate window (20), some
    of them with two snippet slices, timestamps days apart and not in insertion order, every page size from 1 to 10."""
    ops = [{"op": "create"}]
    n = 16
    for i in range(n):
        words = [0] + ([1] if i % 3 == 0 else [])
        two = i % 4 == 1
        ops.append({"op": "put", "uri": "mv2://ps/%d" % i, "pay": i + 1, "cls": "text2" if two else "text", "size": 700 if two else rng.choice([60, 150, 300]),
                    "ts": 1700000000 + ((i * 5) % 11) * 86400 * 2, "words": words, "atoms": ["w%d" % w for w in words]})
    ops.append({"op": "commit"})
    qs = []
    for tk in ([1, 2, 3, 5, 10] if quick else list(range(1, 11))):
        for w in (0, 1):
            qs.append({"op": "search", "toks": ["w%d" % w], "top_k": tk, "paged": True, "no_sketch": rng.random() < 0.5})
    ops += qs + [{"op": "close"}, {"op": "open"}] + [dict(q) for q in qs[:6]] + [{"op": "close"}]
    return ops


def pagination_ties(rng, quick, tied, distinct):
    """C16 with exact score ties: `tied` one-sentence notes of identical shape (same length, same term frequency, one
    timestamp) plus `distinct` longer ones, all matching one word; fewer than 20 matching documents, one slice each, so
    nothing as built excuses a difference.  Every page size from 1 to 10 against the one-request answer."""
    ops = [{"op": "create"}]
    for i in range(tied):
        ops.append({"op": "put", "uri": "mv2://tie/%d" % i, "pay": i + 1, "cls": "raw", "ts": 1700000000,
                    "text": "status note %s zeppelin hangar nominal today" % ("abcdefghijklmnopqrstuvwxyz"[i % 26] * 5), "atoms": ["w9"]})
    for j in range(distinct):
        ops.append({"op": "put", "uri": "mv2://tie/x%d" % j, "pay": 100 + j, "cls": "raw", "ts": 1700000000,
                    "text": "longer report %d about the zeppelin %s and nothing else of interest" % (j, " ".join(["filler%d" % k for k in range(3 * (j + 1))])),
                    "atoms": ["w9"]})
    ops.append({"op": "commit"})
    qs = []
    for tk in range(1, 11):
        qs.append({"op": "search", "toks": ["w9"], "q": "zeppelin", "top_k": tk, "paged": True, "no_sketch": tk % 2 == 0})
    ops += qs + [{"op": "close"}, {"op": "open_ro"}] + [dict(q) for q in qs] + [{"op": "close"}]
    return ops


def scenario_bulk(rng, quick, n, mode):
    """C40: the same kind of corpus ingested through a bulk path; the ordinary contracts (frame table, payloads,
    embeddings, timeline, recall, soundness, exact k-NN) must hold exactly as for plain puts + commit."""
    docs = make_corpus(rng, n, long_frac=0.25)
    for d in docs:
        d.pop("acl", None)
    ops = [{"op": "create"}]
    if mode == "plain":
        ops += docs + [{"op": "commit"}]
    elif mode == "batch":
        ops.append({"op": "begin_batch", "skip_sync": rng.random() < 0.7, "no_auto": rng.random() < 0.7, "level": rng.choice([1, 3, 9]),
                    "presize": rng.choice([0, 0, 262144])})
        ops += docs + [{"op": "end_batch"}, {"op": "commit"}]
    elif mode == "batch+lastbig":
        # automatic checkpoints stay on inside the batch, and the LAST put is the one that crosses the 75 % line of the log
        # (a ~32 KB text: parent + chunk records, about 51 KB of the 64 KiB log together with the four documents before it): the commit closing the batch then finds nothing pending
        ops.append({"op": "begin_batch", "skip_sync": rng.random() < 0.5, "no_auto": False, "level": 3, "presize": 0})
        ops += docs[:4] + [{"op": "put", "uri": "mv2://q/lastbig", "pay": 900, "cls": "long", "size": 32000, "ts": 77}]
        ops += [{"op": "end_batch"}, {"op": "commit"}]
    elif mode == "pending+batch":
        # puts still pending in the log when the batch starts and pre-sizes the log beyond its current size
        cut = max(1, n // 3)
        ops += docs[:cut]
        ops.append({"op": "begin_batch", "skip_sync": rng.random() < 0.5, "no_auto": True, "level": 3, "presize": rng.choice([262144, 1048576])})
        ops += docs[cut:] + [{"op": "end_batch"}, {"op": "commit"}]
    elif mode == "commit+skip":
        # an ordinary full commit first (its indexes, sketches and manifests exist), then skip-index commits and a finalize
        cut = max(1, n // 2)
        ops += docs[:cut] + [{"op": "commit"}]
        ops.append({"op": "begin_batch", "skip_sync": True, "no_auto": True})
        ops += docs[cut:] + [{"op": "end_batch"}, {"op": "commit_skip"}, {"op": "finalize"}]
    else:
        cut = max(1, n // 2)
        ops.append({"op": "begin_batch", "skip_sync": True, "no_auto": True})
        ops += docs[:cut] + [{"op": "commit_skip"}] + docs[cut:] + [{"op": "end_batch"}, {"op": "commit_skip"}, {"op": "finalize"}]
        if mode == "skip+commit":
            ops.append({"op": "commit"})
    b, qid = battery(rng, 0, n, quick, light=True)
    reads = [{"op": "timeline"}, {"op": "vecset"}] + b
    ops += reads + [{"op": "close"}, {"op": "open", "full": True}] + [dict(q) for q in reads] + [{"op": "close"}, {"op": "verify"}]
    return ops


def is_skip(evs):
    return any(e.get("ev") in ("commit_skip", "finalize") for e in evs)


def is_bulk(evs):
    return any(e.get("ev") in ("begin_batch", "commit_skip", "finalize") for e in evs)


def engine(tier):
    quick = tier == "quick"
    rng = random.Random(seed() * 3571 + (5 if quick else 6))
    scs = [{"id": 1, "ops": pagination_scenario(rng, 48 if quick else 90, quick)}]
    scs.append({"id": 2, "ops": recall_scenario(rng, 130 if quick else 190, quick)})
    scs.append({"id": 3, "ops": pagination_small(rng, quick)})
    scs.append({"id": 4, "ops": asof_scenario(rng, quick)})
    scs.append({"id": 5, "ops": asof_prose(rng, quick)})
    scs.append({"id": 6, "ops": presize_scenario(rng, quick)})
    scs.append({"id": 7, "ops": asof_daterange(rng, quick)})
    scs.append({"id": 8, "ops": pagination_ties(rng, quick, 14, 4)})
    scs.append({"id": 9, "ops": pagination_ties(rng, quick, 4, 0)})
    scs.append({"id": 10, "ops": pagination_ties(rng, quick, 5, 2)})
    sizes = [6, 14, 30] if quick else [4, 8, 14, 24, 40, 60, 90, 120] * 3
    for n in sizes:
        scs.append({"id": len(scs) + 1, "ops": scenario(rng, quick, n)})
    for mode in (["plain", "batch", "skip", "skip+commit", "pending+batch", "commit+skip", "batch+lastbig"] if quick else ["batch+lastbig"] + ["plain", "batch", "batch", "batch", "skip", "skip", "skip+commit", "skip+commit", "pending+batch", "commit+skip"] * 2):
        scs.append({"id": len(scs) + 1, "ops": scenario_bulk(rng, quick, rng.choice([5, 9]) if quick else rng.choice([5, 12, 30, 60]), mode)})
    wd, paths = eng_core.run_scenarios(scs, "qry", jobs=min(12, len(scs)))
    accepted, events, diags, devs = eng_core.validate(paths, wd, mk_cfg=lambda dbg: eng_core.trace_cfg(dbg, defects=AS_BUILT), jobs=min(10, len(scs)), max_diag=40)
    nq = sum(1 for s in scs for o in s["ops"] if o["op"] in ("search", "vsearch", "vtext", "adaptive", "ask"))
    return {"n_scenarios": len(scs), "accepted": accepted, "events": events, "diags": diags, "deviations": devs, "queries": nq,
            "samples": [[o for o in s["ops"] if o["op"] in ("search", "vsearch", "ask")][:6] for s in scs[:2]],
            "docs": sizes}


def run_prop(prop, tier, out: Outcome):
    r = eng_core.cached("query", tier, lambda: engine(tier))
    n_mine = 0
    for d in r["diags"]:
        evs = d["events"]
        mine = []
        for (li, name) in d["mismatches"]:
            ev = evs[li - 1] if 0 < li <= len(evs) else {}
            owners = {OWNER.get(name)} | set(ALSO.get(name, []))
            if is_skip(evs[:li]):
                # a memory ingested through skip-index commits that answers differently from what the specification (= plain
                # puts) says: C40 alone (the other properties do not quantify over that path)
                owners = {"C40"}
            elif is_bulk(evs[:li]):
                # batch mode only changes when things are synced and how the log is sized: the ordinary owners stay, C40 joins
                owners = owners | {"C40"}
            if prop in owners:
                mine.append((li, name, ev))
        if d.get("undiagnosed") and prop == "C10":
            mine.append((len(evs), "undiagnosed", evs[-1] if evs else {}))
        if d.get("stuck_at") is not None and not d["mismatches"] and prop == "C10":
            mine.append((d["stuck_at"] + 1, "no-action", evs[d["stuck_at"]] if d["stuck_at"] < len(evs) else {}))
        seen = set()
        for (li, name, ev) in mine:
            if name in seen:
                continue
            seen.add(name)
            n_mine += 1
            a = ev.get("args", {})
            sig = {"engine": "query", "kind": "impl_to_spec", "field": name, "call": ev.get("ev", "?"),
                   "no_sketch": bool(a.get("no_sketch")), "handle": "ro" if ev.get("obs", {}).get("ro") else "rw"}
            out.diverge(sig, "query answer is not allowed by Mv2Query: call #%d %s %s -> contract `%s` fails (result %s)"
                        % (li - 1, ev.get("ev"), json.dumps({k: v for k, v in a.items() if k not in ("op",)})[:200], name, json.dumps(ev.get("res"))[:200]),
                        {"engine": "query", "scenario": [e["args"] for e in evs[:li] if e.get("ev") not in ("reset", "crash", "corrupt")]})
    for d in r["deviations"]:
        if (DEV_OWNER.get(d["deviation"]) == prop and not is_bulk(d["events"])) or (prop == "C40" and is_bulk(d["events"])):
            evs = d["events"]
            last = evs[-1] if evs else {}
            out.diverge({"engine": "query", "kind": "deviation", "deviation": d["deviation"], "call": last.get("ev", "?")},
                        "specification deviation %s was needed to explain call #%d %s" % (d["deviation"], len(evs) - 1, json.dumps(last.get("args"))[:160]),
                        {"engine": "query", "scenario": [e["args"] for e in evs if e.get("ev") not in ("reset", "crash", "corrupt")]})
    return {
        "states": max(1, r["events"]), "transitions": max(1, r["events"]),
        "traces_validated_against_impl": r["accepted"], "evaluations": r["queries"], "distinct_nontrivial": r["queries"],
        "rule": "seeded corpora of %s documents; every query call (single-word, boolean from random ASTs, time-travel, ACL audit/enforce, paged, vector, ask/adaptive) in five phases (before commit, committed, after deletes/updates, reopened rw, reopened ro, after doctor rebuild) is one trace event validated by TLC against Mv2Core + Mv2Query; `evaluations` = query calls issued (each distinct by corpus, phase or arguments); states/transitions = trace events TLC stepped through (this check is trace validation; the query-language semantics itself is model-checked under C32)." % r["docs"],
        "samples": r["samples"], "exhaustive": False,
        "histories_total": r["n_scenarios"], "histories_rejected": len(r["diags"]), "contract_failures_owned_by_this_property": n_mine,
        "deviations_used": sorted(set(d["deviation"] for d in r["deviations"])),
        "engine_result_from_cache": r["from_cache"], "engine_wall_s": r.get("engine_wall_s"),
    }


def replay(prop, path, out):
    rp = json.load(open(path))
    sc = rp["replay"]["scenario"]
    wd, paths = eng_core.run_scenarios([{"id": 1, "ops": sc}], "qryr", jobs=1)
    accepted, events, diags, devs = eng_core.validate(paths, wd, mk_cfg=lambda dbg: eng_core.trace_cfg(dbg, defects=AS_BUILT), jobs=1)
    for d in diags:
        for (li, name) in d["mismatches"]:
            if OWNER.get(name) == prop or prop in ALSO.get(name, []):
                out.diverge({"engine": "query", "kind": "impl_to_spec", "field": name}, "replayed scenario still fails `%s`" % name, {"engine": "query", "scenario": sc})
    return out.finish("model_checking", {"states": max(1, events), "transitions": max(1, events), "traces_validated_against_impl": accepted,
                                         "evaluations": events, "distinct_nontrivial": accepted, "rule": "replay of one scenario", "samples": [sc[:8]],
                                         "exhaustive": False}, ["replay of %s" % path])
