"""func engine — transcribed algorithms: C31 (footer scan), C32 (query language),
C35 (snippet slices), C37 (adaptive cut-off).

For each function: (1) TLC model-checks the transcription against the property's
own statement on every bounded abstract input (FooterScan: Scan = Naive;
QueryLang: Eval(Parse(Show(ast))) = Eval(ast); Snippet/Adaptive: the contract);
(2) abstract cases — exhaustive small ones and seeded random larger ones — are
concretised and executed on the REAL function by `mvh func-run`; (3) TLC reads
the recording (Trace_Func) and requires the real output to equal the
transcription's output and to satisfy the contract.
"""
import itertools
import json
import os
import random
import subprocess

from common import (Outcome, ToolError, cfg, log, run_harness, run_tlc, sample, seed, tla_set, validate_trace, workdir,
                    build_harness)

BIG = 1000000


# --------------------------------------------------------------------------- footer
def footer_alphabet(js=(0, 1, 2, BIG)):
    al = [{"t": "x", "j": 0, "ok": False, "gm": False, "k": 0}, {"t": "M", "j": 0, "ok": False, "gm": False, "k": 0}]
    for j in js:
        for ok in (False, True):
            for gm in (False, True):
                al.append({"t": "F", "j": j, "ok": ok, "gm": gm, "k": 7})
    for k in (1, 2, 6):
        al.append({"t": "P", "j": 1, "ok": True, "gm": False, "k": k})
    return al


def footer_cases(quick, rng):
    al = footer_alphabet()
    cases = []
    for n in range(0, 3 if quick else 4):
        for toks in itertools.product(al, repeat=n):
            cases.append({"fn": "footer", "toks": list(toks)})
    al2 = footer_alphabet(js=(0, 1, 2, 3, 5, 9, BIG))
    for _ in range(400 if quick else 6000):
        n = rng.randint(3, 12)
        toks = [rng.choice(al2) if rng.random() < 0.6 else rng.choice(al2[:2]) for _ in range(n)]
        cases.append({"fn": "footer", "toks": toks})
    return cases


# --------------------------------------------------------------------------- adaptive
def adaptive_cases(quick, rng):
    cases = []
    vals = list(range(0, 9))

    def ok_range(s):
        if not s:
            return True
        r = max(s) - min(s)
        return r in (0, 1, 2, 4, 8)

    lists = []
    for n in range(0, 4 if quick else 5):
        for s in itertools.product(range(0, 5), repeat=n):
            if ok_range(s):
                lists.append(list(s))
    for _ in range(200 if quick else 3000):
        n = rng.randint(3, 9)
        s = [rng.choice(vals) for _ in range(n)]
        if rng.random() < 0.6:
            s.sort(reverse=True)
        if ok_range(s):
            lists.append(s)
    # the same lists shifted below zero (all-negative and mixed-sign score lists: 1 - distance similarities can be negative)
    shifted = []
    for s in lists:
        if s and (len(s) <= 3 or rng.random() < 0.3):
            for k in (2, 5, 9):
                shifted.append([x - k for x in s])
    lists += shifted
    for s in lists:
        for strat in ("abs", "rel"):
            for thr in ((-4, 0, 2, 4, 8) if quick else (-8, -4, -1, 0, 1, 2, 3, 4, 6, 8)):
                for mr in (0, 1, 2) if quick else (0, 1, 2, 3):
                    for norm in (False, True):
                        if rng.random() < (0.25 if quick else 0.5) or len(s) <= 2:
                            cases.append({"fn": "adaptive", "den": 8, "scores": s, "strategy": strat, "thr": thr, "thr2": 0, "thr3": 0,
                                          "min_results": mr, "normalize": norm})
    # bounds contract only: cliff / elbow / combined with arbitrary parameters
    for _ in range(300 if quick else 5000):
        s = rng.choice(lists)
        cases.append({"fn": "adaptive", "den": 8, "scores": s, "strategy": rng.choice(["cliff", "elbow", "comb"]),
                      "thr": rng.choice([0, 1, 2, 4, 8, 16]), "thr2": rng.choice([0, 2, 4, 8]), "thr3": rng.choice([0, 2, 4]),
                      "min_results": rng.randint(0, 6), "normalize": rng.random() < 0.5})
    return cases


# --------------------------------------------------------------------------- snippet
SN_ALPHA = [[1, "a"], [2, "a"], [4, "a"], [1, "."], [1, "n"], [1, "s"], [2, "w"], [3, "w"], [3, "a"], [1, "!"]]


def snippet_cases(quick, rng):
    cases = []
    base = SN_ALPHA[:8]
    for n in range(0, 3 if quick else 4):
        for t in itertools.product(base, repeat=n):
            tl = sum(c[0] for c in t)
            occs = [[], [[0, 1]], [[1, 2]], [[tl, tl + 2]], [[1, 1]], [[2, 3], [0, 1]]]
            for occ in occs:
                for w in (0, 1, 4):
                    for m in (0, 1, 2):
                        cases.append({"fn": "snippet", "text": [list(c) for c in t], "occ": occ, "window": w, "max": m})
    for _ in range(400 if quick else 8000):
        n = rng.randint(5, 90)
        t = []
        for _ in range(n):
            r = rng.random()
            if r < 0.62:
                t.append(list(rng.choice([[1, "a"], [1, "a"], [1, "a"], [2, "a"], [3, "a"], [4, "a"]])))
            elif r < 0.76:
                t.append([1, "s"])
            elif r < 0.80:
                t.append(list(rng.choice([[2, "w"], [3, "w"]])))
            elif r < 0.92:
                t.append([1, rng.choice([".", "!"])])
            else:
                t.append([1, "n"])
        tl = sum(c[0] for c in t)
        occ = []
        for _ in range(rng.randint(0, 5)):
            s = rng.randint(0, tl + 6)
            occ.append([s, s + rng.randint(0, 6)])
        if rng.random() < 0.6:
            occ.sort()
        cases.append({"fn": "snippet", "text": t, "occ": occ, "window": rng.choice([0, 1, 2, 5, 10, 24, 40, 120]),
                      "max": rng.choice([0, 1, 2, 3, 5])})
    return cases


# --------------------------------------------------------------------------- query
Q_TOKS = ["a", "b", "p", "t", "AND", "OR", "NOT", "(", ")"]
Q_MORE = ["a", "b", "c", "p", "t", "l", "u", "A", "AND", "OR", "NOT", "and", "or", "not", "(", ")", "(", ")"]


def q_atom(v):
    return {"k": "atom", "v": v, "es": []}


def q_show(e, ctx, explicit, rng=None):
    """Printer of reference ASTs with minimal parentheses (mirror of QueryLang!Show); keyword case varies."""
    def kw(w):
        return w.lower() if rng is not None and rng.random() < 0.3 else w
    if e["k"] == "atom":
        return [e["v"]]
    if e["k"] == "not":
        return [kw("NOT")] + q_show(e["es"][0], 2, explicit, rng)
    if e["k"] == "and":
        s = []
        for i, c in enumerate(e["es"]):
            if i and explicit:
                s.append(kw("AND"))
            s += q_show(c, 1, explicit, rng)
        return ["("] + s + [")"] if ctx == 2 else s
    s = []
    for i, c in enumerate(e["es"]):
        if i:
            s.append(kw("OR"))
        s += q_show(c, 0, explicit, rng)
    return ["("] + s + [")"] if ctx >= 1 else s


def q_rand_ast(rng, depth, atoms):
    if depth == 0 or rng.random() < 0.25:
        return q_atom(rng.choice(atoms))
    k = rng.choice(["not", "and", "or", "and", "or"])
    if k == "not":
        return {"k": "not", "v": "", "es": [q_rand_ast(rng, depth - 1, atoms)]}
    return {"k": k, "v": "", "es": [q_rand_ast(rng, depth - 1, atoms) for _ in range(rng.randint(2, 3))]}


def q_all_asts(depth, atoms):
    if depth == 0:
        return [q_atom(a) for a in atoms]
    s = q_all_asts(depth - 1, atoms)
    out = list(s) + [{"k": "not", "v": "", "es": [e]} for e in s]
    for k in ("and", "or"):
        out += [{"k": k, "v": "", "es": [x, y]} for x in s for y in s]
    return out


def query_cases(quick, rng):
    docs16 = []
    for m in range(16):
        docs16.append([x for i, x in enumerate(("a", "b", "p", "t")) if (m >> i) & 1])
    cases = []
    for n in range(0, 5 if quick else 6):
        for toks in itertools.product(Q_TOKS, repeat=n):
            if n >= 5 and rng.random() < 0.5:
                continue
            cases.append({"fn": "query", "toks": list(toks), "docs": docs16})
    atoms7 = ("a", "b", "c", "p", "t", "l", "u")
    # well-formed queries printed from reference ASTs: must parse and mean what the AST means
    wf = q_all_asts(2, ["a", "b"]) if quick else q_all_asts(2, ["a", "b", "t"])
    for e in wf:
        for explicit in (False, True):
            cases.append({"fn": "query", "toks": q_show(e, 0, explicit), "ast": e, "docs": docs16[:8] if quick else docs16})
    for _ in range(400 if quick else 8000):
        e = q_rand_ast(rng, rng.randint(2, 5), ["a", "b", "c", "p", "t", "l", "u", "A"])
        docs = [[x for x in atoms7 if rng.random() < 0.5] for _ in range(12)]
        cases.append({"fn": "query", "toks": q_show(e, 0, rng.random() < 0.5, rng), "ast": e, "docs": docs, "tight": rng.random() < 0.5})
    for _ in range(300 if quick else 6000):
        n = rng.randint(3, 14)
        toks = [rng.choice(Q_MORE) for _ in range(n)]
        docs = [[x for x in atoms7 if rng.random() < 0.5] for _ in range(12)]
        cases.append({"fn": "query", "toks": toks, "docs": docs, "tight": rng.random() < 0.5})
    return cases


def nest_events(quick):
    """Deep nesting runs in a subprocess each: a stack overflow kills only that process."""
    b = build_harness()
    evs = []
    depths = [1, 2, 127, 128, 129, 1000, 100000, 1000000] if quick else [1, 2, 3, 64, 127, 128, 129, 130, 256, 1000, 10000, 100000, 1000000, 4000000]
    for kind in ("paren", "not"):
        for n in depths:
            case = {"fn": "query", "nest": n, "kind": kind, "docs": [["a"], [], ["b"]]}
            try:
                p = subprocess.run([b, "func-query-one", json.dumps(case)], stdout=subprocess.PIPE, stderr=subprocess.PIPE, text=True, timeout=120)
                if p.returncode == 0 and p.stdout.strip():
                    o = json.loads(p.stdout.strip().splitlines()[-1])
                else:
                    o = {"res": "crash", "rc": p.returncode}
            except subprocess.TimeoutExpired:
                o = {"res": "hang"}
            evs.append({"ev": "query", "in": case, "out": o})
    return evs


# --------------------------------------------------------------------------- capsule (feature build)
def capsule_cases(quick, rng):
    cases = []
    for sc in ((0, 2) if quick else (0, 1, 2, 3)):
        n = sc + 1           # chunks of 1 MiB: the base file is ~75 KiB, each size class adds ~1.1 MB of incompressible data
        def add(t):
            cases.append({"fn": "capsule", "size_class": sc, "tamper": t})
        add({"kind": "none", "k": 0})
        hdr_bytes = [0, 3, 4, 6, 7, 8, 39, 40, 51, 52, 59, 60, 61, 63] if quick else list(range(64))
        for k in hdr_bytes:
            add({"kind": "flip_header", "k": k})
        for k in (0, 10, 63):
            add({"kind": "trunc_header", "k": k})
        for k in range(n + 1):
            add({"kind": "trunc_boundary", "k": k})
        for k in range(n):
            for byte in (0, 1, 2):
                add({"kind": "trunc_in_len", "k": k, "byte": byte})
                add({"kind": "flip_len", "k": k, "byte": byte})
            add({"kind": "flip_len", "k": k, "byte": 3})
            add({"kind": "trunc_in_chunk", "k": k})
            for w in ("first", "mid", "last"):
                add({"kind": "flip_chunk", "k": k, "where": w})
            add({"kind": "dup", "k": k})
            add({"kind": "drop", "k": k})
        for k in range(n - 1):
            add({"kind": "swap", "k": k})
        for k in (0, 1, 2):
            add({"kind": "append", "k": k})
    return cases


# --------------------------------------------------------------------------- model checking instances
MC = {
    "C31": ("FooterScan", lambda q: cfg({"MaxTok": 3 if q else 4, "Big": BIG}, invariants=["ScanIsLastValid", "TocDescribed"])),
    "C37": ("Adaptive", lambda q: cfg({"Den": 8, "MaxLen": 4 if q else 5, "MaxScore": 4, "Thresholds": "{0, 2, 4, 8}" if q else "{0, 1, 2, 3, 4, 8}",
                                       "MinResults": "{0, 1, 2}"}, invariants=["ContractHolds"])),
    "C35": ("Snippet", lambda q: cfg({"Gap": 1, "MaxChars": 3 if q else 4, "Windows": "{0, 2, 4}", "Maxes": "{0, 1, 2}", "OccStarts": "{0, 1, 3, 7}",
                                      "OccLens": "{0, 1, 2}", "MaxOcc": 2}, invariants=["ContractHolds"])),
    "C29": ("Capsule", lambda q: cfg({"MaxChunks": 3 if q else 4}, invariants=["RoundTrip", "NeverWrongPlaintext", "TamperRejected"])),
    "C30": ("MC_Codecs", lambda q: cfg({"U": "{0, 1, 3, 8}" if q else "{0, 1, 2, 3, 4, 5, 6, 7, 8}", "MaxEntries": 3 if q else 4},
                                       invariants=["RoundTrip", "GuardsReject", "NeverDifferent"])),
    "C34": ("ChunkPlan", lambda q: cfg({"MaxLen": 6 if q else 8, "Sizes": "{2, 3}", "Slacks": "{1, 2}"}, invariants=["PlanIsPartition", "Bounded"])),
    "C32": ("QueryLang", lambda q: cfg({"MaxDepth": 128, "BaseAtoms": '{"a", "b", "p"}' if q else '{"a", "b", "p", "t"}', "AstDepth": 2},
                                       invariants=["MeansWhatItSays"])),
}
def chunk_cases(quick, rng):
    """C34: texts in run-length form.  (1) the naive planner with small explicit chunk sizes on short structured texts
    (every cut decision - newline / sentence end / white space ahead and behind, hard cut - within a few hundred characters);
    (2) plan_text_chunks on texts around the 2400-character threshold and up to ~9000 characters; (3) structured documents."""
    cases = []

    def rnd_text(total, shape):
        rl, n = [], 0
        while n < total:
            r = rng.random()
            if shape == "prose":
                k = rng.randint(1, 12)
                rl.append([k, "a"])
                n += k
                sep = rng.random()
                if sep < 0.70:
                    rl.append([1, "s"])
                elif sep < 0.88:
                    rl += [[1, "."], [1, "s"]]
                    n += 1
                elif sep < 0.96:
                    rl += [[1, "."], [1, "n"]]
                    n += 1
                else:
                    rl.append([1, "n"])
                n += 1
            elif shape == "dense":            # long unbroken runs: hard cuts and far-away separators
                k = rng.randint(20, 1500)
                rl.append([k, "a"])
                n += k
                rl.append([1, rng.choice(["s", ".", "n", "s"])])
                n += 1
            elif shape == "lines":
                k = rng.randint(5, 90)
                rl.append([k, "a"])
                rl.append([1, "n"])
                n += k + 1
            else:                             # mixed runs of every class
                k = rng.randint(1, 40)
                rl.append([k, rng.choice(["a", "a", "a", "s", ".", "n"])])
                n += k
        return rl

    # (1) explicit small chunk sizes
    for _ in range(150 if quick else 2500):
        C = rng.choice([5, 8, 40, 100, 160, 200])
        cases.append({"fn": "chunk", "C": C, "text": rnd_text(rng.randint(0, 6 * C + 80), rng.choice(["prose", "dense", "lines", "mixed", "mixed"]))})
    for C in (5, 40):
        for total in (0, 1, C - 1, C, C + 1, 2 * C, 2 * C + 1):
            cases.append({"fn": "chunk", "C": C, "text": [[total, "a"]] if total else []})
            cases.append({"fn": "chunk", "C": C, "text": [[max(total - 1, 0), "a"], [1, "."]]})
    # (2) the whole planner around the threshold and beyond
    for total in (2390, 2399, 2400, 2401, 2405, 2450, 3599, 3600, 3601):
        for shape in ("prose", "lines", "dense"):
            cases.append({"fn": "chunk", "C": 0, "text": rnd_text(total, shape)})
    for _ in range(60 if quick else 1200):
        cases.append({"fn": "chunk", "C": 0, "text": rnd_text(rng.randint(2300, 9000), rng.choice(["prose", "prose", "dense", "lines", "mixed"]))})
    cases.append({"fn": "chunk", "C": 0, "text": [[5000, "a"]]})
    cases.append({"fn": "chunk", "C": 0, "text": [[1300, "a"], [1, "."], [1, "s"], [1300, "a"], [3, "n"], [200, "a"]]})
    # (3) structured documents: tables and code fences of growing size between paragraphs
    for _ in range(40 if quick else 600):
        blocks = []
        for _ in range(rng.randint(1, 6)):
            k = rng.choice(["para", "para", "table", "table", "code"])
            blocks.append({"k": k, "n": rng.randint(1, 60 if k != "para" else 25), "cols": rng.randint(2, 6)})
        if not any(b["k"] != "para" for b in blocks):
            blocks.insert(rng.randint(0, len(blocks)), {"k": rng.choice(["table", "code"]), "n": rng.randint(1, 60), "cols": rng.randint(2, 6)})
        cases.append({"fn": "chunk", "C": 0, "doc": blocks})
    return cases


def codec_cases(quick, rng):
    """C30: the cases are the ones TLC enumerated and wrote out while model-checking MC_Codecs (spec -> impl)."""
    path = os.path.join(_CASES_DIR["d"], "codec_cases.ndjson")
    return [json.loads(l) for l in open(path) if l.strip()]


_CASES_DIR = {}


GEN = {"C34": chunk_cases, "C30": codec_cases, "C29": capsule_cases, "C31": footer_cases, "C37": adaptive_cases, "C35": snippet_cases, "C32": query_cases}
WHAT = {"C34": "plan_text_chunks / build_chunk_manifest", "C30": "HeaderCodec / CommitFooter / Toc / time-index encode and decode", "C29": "encryption::lock_file / unlock_file", "C31": "find_last_valid_footer", "C37": "find_adaptive_cutoff / normalize_scores", "C35": "compute_snippet_slices",
        "C32": "parse_query + ParsedQuery::evaluate"}


def trace_cfg(debug=False):
    return cfg({"Debug": "TRUE" if debug else "FALSE"}, spec="TraceSpec", postcondition="Accept")


DRIFT = []


def validate_chunk(lines, wd, tag, max_fail=5):
    """Validates one chunk of the recording; a rejected line is diagnosed (Debug run names the failed check), removed,
    and the rest is validated again, so one failure does not hide the others."""
    import re
    accepted = 0
    failures = []
    lines = list(lines)
    while lines and len(failures) < max_fail:
        cur = os.path.join(wd, "cur-%s.ndjson" % tag)
        with open(cur, "w") as f:
            f.write("\n".join(lines) + "\n")
        ok, matched, total, r = validate_trace("Trace_Func", trace_cfg(False), cur, tag, timeout=3000, heap="3g")
        for (li, nm) in set(re.findall(r'<<"DRIFT", (\d+), "([^"]+)">>', r.output)):
            if int(li) <= len(lines):
                DRIFT.append({"check": nm, "event": json.loads(lines[int(li) - 1])})
        if r.error or matched < 0:
            log(r.output[-2500:])
            raise ToolError("TLC failed on Trace_Func")
        if ok:
            accepted += total
            lines = []
            break
        accepted += matched
        bad = lines[matched]
        one = os.path.join(wd, "one-%s.ndjson" % tag)
        with open(one, "w") as f:
            f.write(bad + "\n")
        _, _, _, rd = validate_trace("Trace_Func", trace_cfg(True), one, tag + "d", timeout=300)
        names = sorted(set(re.findall(r'<<"MISMATCH", \d+, "([^"]+)">>', rd.output)))
        failures.append({"event": json.loads(bad), "checks": names or ["no-action"]})
        lines = lines[matched + 1:]
    return accepted, failures, len(lines)


def validate_lines(lines, wd, tag, max_fail=5, jobs=8):
    import concurrent.futures as cf
    if len(lines) < 200:
        return validate_chunk(lines, wd, tag, max_fail)
    chunks = [lines[i::jobs] for i in range(jobs) if lines[i::jobs]]
    acc, fails, left = 0, [], 0
    with cf.ThreadPoolExecutor(max_workers=jobs) as ex:
        futs = [ex.submit(validate_chunk, ch, wd, "%s%d" % (tag, i), max_fail) for i, ch in enumerate(chunks)]
        for f in futs:
            a, fl, lf = f.result()
            acc += a
            fails += fl
            left += lf
    return acc, fails[:max_fail], left


def run_prop(prop, tier, out: Outcome):
    quick = tier == "quick"
    module, mk = MC[prop]
    mc_env = None
    if prop == "C30":
        _CASES_DIR["d"] = workdir("casesC30")
        mc_env = {"CASES": os.path.join(_CASES_DIR["d"], "codec_cases.ndjson")}
    mc = run_tlc(module, mk(quick), "mc" + prop, workers=6 if quick else 14, timeout=900 if quick else 3000, env=mc_env)
    if mc.error:
        log(mc.output[-3000:])
        raise ToolError("TLC failed on " + module)
    if mc.violated:
        out.diverge({"engine": "func", "kind": "model_invariant", "module": module, "invariant": mc.violated},
                    "%s: the transcription violates %s (TLC counterexample)" % (module, mc.violated), {"tlc_output_tail": mc.output[-3000:]})
    rng = random.Random(seed() * 7907 + sum(map(ord, prop)))
    cases = GEN[prop](quick, rng)
    wd = workdir("func" + prop)
    cj = os.path.join(wd, "cases.ndjson")
    with open(cj, "w") as f:
        for c in cases:
            f.write(json.dumps(c) + "\n")
    oj = os.path.join(wd, "out.ndjson")
    if prop == "C29":
        p = run_harness(["capsule-run", cj, oj], feat=True, timeout=3000)
    else:
        p = run_harness(["func-run", cj, oj], timeout=3000)
    if p.returncode != 0:
        raise ToolError("func-run failed: " + p.stderr[-2000:])
    lines = open(oj).read().splitlines()
    if prop == "C32":
        lines += [json.dumps(e) for e in nest_events(quick)]
    accepted, failures, unexamined = validate_lines(lines, wd, "fn" + prop)
    for fl in failures:
        ev = fl["event"]
        sig = {"engine": "func", "kind": "impl_to_spec", "fn": ev.get("ev"), "checks": fl["checks"]}
        if prop == "C32" and "nest" in ev.get("in", {}):
            sig["nest"] = ev["in"]["nest"]
        if prop == "C29" and ev.get("in", {}).get("tamper", {}).get("kind") == "flip_header":
            sig["header_byte"] = ev["in"]["tamper"]["k"]
        out.diverge(sig, "%s: the real function's output is not what the transcription / contract allows (failed: %s); input %s -> %s"
                    % (WHAT[prop], ", ".join(fl["checks"]), json.dumps(ev.get("in"))[:300], json.dumps(ev.get("out"))[:300]),
                    {"engine": "func", "case": ev.get("in")})
    # binding self-test: a corrupted output must be rejected
    binding = None
    if not failures and lines:
        ev = json.loads(lines[len(lines) // 2])
        o = ev["out"]
        if prop == "C29":
            o["wrote"], o["same"], o["skipped"] = True, False, False
        elif prop == "C31":
            o["cell"] = o.get("cell", 0) + 1
            o["found"] = True
        elif prop == "C37":
            o["cut"] = o.get("cut", 0) + 100
        elif prop == "C35":
            o["slices"] = o.get("slices", []) + [[0, 1], [0, 1]]
        elif prop == "C34":
            ev = next(json.loads(x) for x in lines if json.loads(x)["out"].get("ranges"))
            o = ev["out"]
            o["ranges"][0][1] += 1
        elif prop == "C30":
            ev = next(json.loads(x) for x in lines if json.loads(x)["in"]["m"]["k"] == "none" and json.loads(x)["in"]["codec"] == "footer")
            o = ev["out"]
            o["dec"] = {"ok": False}
        else:
            o["res"] = "panic"
        cp = os.path.join(wd, "corrupt.ndjson")
        with open(cp, "w") as f:
            f.write(json.dumps(ev) + "\n")
        ok, _, _, _ = validate_trace("Trace_Func", trace_cfg(False), cp, "fnc" + prop, timeout=300)
        if ok:
            raise ToolError("self-test failed: a recording with a corrupted output was accepted")
        binding = "corrupted output rejected"
    drift_kinds = {}
    for d in DRIFT:
        drift_kinds[d["check"]] = drift_kinds.get(d["check"], 0) + 1
    for k, n in sorted(drift_kinds.items()):
        ex = next(d for d in DRIFT if d["check"] == k)
        log("NOTE %s: %d case(s) differ from the transcription in `%s` without breaking the property (e.g. input %s)"
            % (prop, n, k, json.dumps(ex["event"].get("in"))[:200]))
    log("[func %s] %s: %d states; %d cases executed on the real function, %d accepted, %d rejected"
        % (prop, module, mc.distinct, len(lines), accepted, len(failures)))
    return {
        "states": max(1, mc.distinct), "transitions": max(1, mc.generated),
        "traces_validated_against_impl": accepted, "evaluations": len(lines), "distinct_nontrivial": accepted,
        "rule": "abstract cases (exhaustive over the small alphabet up to a length bound, plus seeded random larger ones; de-duplicated by construction) concretised and executed on the real %s; each recorded (input, output) is one trace line that TLC checks against the transcription in spec/%s.tla and the property's contract. Every case is distinct; a case is counted when TLC accepted it." % (WHAT[prop], module),
        "samples": [json.loads(x) for x in sample(lines, 3)],
        "exhaustive": False,
        "model_checked_module": module, "model_violated": mc.violated, "model_timed_out": mc.timed_out,
        "transcription_drift_not_violations": drift_kinds,
        "cases_rejected": len(failures), "cases_unexamined_after_too_many_failures": unexamined, "binding_self_test": binding,
    }


def replay(prop, path, out):
    rp = json.load(open(path))
    case = rp["replay"]["case"]
    wd = workdir("funcr" + prop)
    if "nest" in case:
        lines = [json.dumps(e) for e in nest_events(True) if e["in"]["nest"] == case["nest"] and e["in"]["kind"] == case["kind"]]
    else:
        cj = os.path.join(wd, "cases.ndjson")
        open(cj, "w").write(json.dumps(case) + "\n")
        oj = os.path.join(wd, "out.ndjson")
        p = run_harness(["func-run", cj, oj])
        lines = open(oj).read().splitlines()
    accepted, failures, _ = validate_lines(lines, wd, "fnr" + prop)
    for fl in failures:
        out.diverge({"engine": "func", "kind": "impl_to_spec", "fn": fl["event"].get("ev"), "checks": fl["checks"]},
                    "replayed case still fails: %s" % ", ".join(fl["checks"]), {"engine": "func", "case": case})
    return out.finish("model_checking", {"states": 1, "transitions": 1, "traces_validated_against_impl": accepted, "evaluations": len(lines),
                                         "distinct_nontrivial": accepted, "rule": "replay of one case", "samples": [case], "exhaustive": False},
                      ["replay of %s" % path])
