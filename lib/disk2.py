"""disk engine, stage 2: the recorded file operations themselves, validated against the file-system layer of Mv2Disk
(spec/Trace_Mv2Disk.tla).

Every system call of a recorded history becomes one event.  The image a write leaves in an inode is abstracted by what
the REAL recovery makes of it (`recs`: positions in the history's chain of logical states whose frame table the
recovered memory equals), taken from the same probes the crash enumeration of stage 1 runs; images stage 1 did not
visit (a staging file renamed while un-synced) are probed in addition.  TLC then evaluates ProcSafe / PowerSafe /
AckDurable of Mv2Disk on every event: every image a power loss could leave under the name (either directory, any image of
that inode since its last fsync) - all of them, not a sample.
"""
import hashlib
import json

import fsstate

HDR = 4096
UNKNOWN = [-7]


def sha(b):
    return hashlib.sha1(bytes(b)).hexdigest()


def table_key(res):
    """What identifies the logical state a recovery shows (None: open failed)."""
    if not res or not (res.get("res") or {}).get("ok"):
        return None
    fr = (res.get("obs") or {}).get("frames")
    if fr is None:
        return None
    return json.dumps([[f.get("id"), f.get("uri"), f.get("st"), f.get("pay"), f.get("sup"), f.get("supby"), f.get("emb")] for f in fr])


def nosync_calls(scenario):
    out = set()
    inside = False
    for k, o in enumerate(scenario):
        if o.get("op") == "begin_batch" and o.get("skip_sync"):
            inside = True
        if inside:
            out.add(k + 1)
        if o.get("op") == "end_batch":
            inside = False
    return out


def walk(lg, scenario, known):
    """Pass 1.  Returns (raw events, {sha: bytes} of images that must be probed and are not in `known`,
    {call: sha of the file the call leaves}).  Images carry their sha; `need` marks those whose class is needed."""
    ops = fsstate.load_log(lg)
    nosync = nosync_calls(scenario)
    fs = fsstate.FS()
    ino_id, name_id = {}, {}

    def iid(x):
        if x not in ino_id:
            ino_id[x] = len(ino_id) + 1
        return ino_id[x]

    def nid(n):
        if n == "m.mv2":
            return "main"
        if n not in name_id:
            live = set(name_id[k] for k in name_id if k in fs.names)
            name_id[n] = next(x for x in ("stage", "stage2", "stage3") if x not in live)
        return name_id[n]

    raw, extra, after_call = [], {}, {}
    needed = set()

    def need(img):
        h = sha(img)
        needed.add(h)
        if h not in known and h not in extra:
            extra[h] = bytes(img)
        return h

    cur = None
    for idx, op in enumerate(ops):
        k = op["op"]
        if k == "mark":
            t = op["text"].split()
            if t[0] == "begin":
                cur = (int(t[1]), t[2] if len(t) > 2 else "")
                raw.append({"ev": "begin", "c": cur[0], "k": cur[1]})
            elif t[0] == "end" and cur:
                if cur[1] == "abandon":
                    raw.append({"ev": "settle"})
                mi = fs.names.get("m.mv2")
                after_call[cur[0]] = need(fs.files[mi]) if mi in fs.files else None
                raw.append({"ev": "end", "c": cur[0], "k": cur[1], "dura": cur[0] not in nosync, "chk": cur[1] not in ("create", "abandon")})
                cur = None
            continue
        if k == "flock":
            continue
        if cur is None:
            fs.step(op)
            continue
        base = {"chk": cur[1] not in ("create", "abandon"), "at": op.get("n", idx), "call": cur[1], "c": cur[0]}
        name = fsstate.rel(op.get("name", ""))
        ino = op.get("ino")
        if k == "rename":
            i = fs.names.get(name)
            if i is not None and fsstate.rel(op["to"]) == "m.mv2":
                # every image the staging inode may fall back to becomes a candidate for the name from here on
                img = bytearray(fs.dur_files.get(i, b""))
                need(img)
                for u in fs.unsynced.get(i, []):
                    fs.apply_to(img, u)
                    need(img)
            a, b = nid(name), nid(fsstate.rel(op["to"]))
            fs.step(op)
            raw.append(dict(base, ev="rename", name=a, to=b))
        elif k == "create":
            a = nid(name)
            fs.step(op)
            raw.append(dict(base, ev="create", name=a, ino=iid(ino)))
        elif k == "unlink":
            a = nid(name)
            fs.step(op)
            raw.append(dict(base, ev="unlink", name=a))
        elif k in ("write", "trunc"):
            fs.step(op)
            is_main = fs.names.get("m.mv2") == ino
            h = need(fs.files[ino]) if is_main else sha(fs.files[ino])
            raw.append(dict(base, ev="write", ino=iid(ino), sha=h, what=k))
        elif k == "fsync":
            fs.step(op)
            raw.append(dict(base, ev="fsync", ino=iid(ino)))
        elif k == "dirsync":
            fs.step(op)
            raw.append(dict(base, ev="dirsync"))
        else:
            fs.step(op)
    return raw, extra, after_call, needed


def events(raw, after_call, needed, result_of):
    """Pass 2.  `result_of(sha)` = probe result of the directory holding that image as m.mv2."""
    chain = {}
    for c in sorted(after_call):
        h = after_call[c]
        chain[c] = table_key(result_of(h)) if h else None
    pos_of = {}
    for c, key in chain.items():
        if key is not None:
            pos_of.setdefault(key, []).append(c)
    cache = {}

    def recs_of(h):
        if h not in cache:
            key = table_key(result_of(h))
            cache[h] = sorted(pos_of.get(key, [])) if key is not None else []
        return cache[h]

    out = []
    for e in raw:
        e = dict(e)
        if e["ev"] == "write":
            h = e["sha"]
            e["recs"] = recs_of(h) if h in needed else UNKNOWN
            e["sha"] = h[:12]
        out.append(e)
    return out, chain
