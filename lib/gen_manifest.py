#!/usr/bin/env python3
"""Regenerates /verif/MANIFEST.json from lib/manifest_data.py (single source)."""
import json, os, sys
sys.path.insert(0, os.path.dirname(os.path.abspath(__file__)))
import manifest_data as M

VERIF = os.path.dirname(os.path.dirname(os.path.abspath(__file__)))
props = [json.loads(l)["id"] for l in open(os.path.join(VERIF, "properties.jsonl"))]
checks = []
for pid in props:
    if pid in M.CLAIMED:
        c = M.CLAIMED[pid]
        checks.append({
            "property_id": pid,
            "quick_cmd": "bin/check %s --tier quick" % pid,
            "thorough_cmd": "bin/check %s --tier thorough" % pid,
            "evidence_file": "/verif/evidence/%s.json" % pid,
            "replay_cmd_template": "bin/check %s --replay {path}" % pid,
            "engine": c["engine"],
            "level_claimed": {"category": c.get("category", "model_checking"), "text": c["text"], "design_ref": c.get("design_ref", "DESIGN.md §6")},
            "level_note": c["note"],
            "technique": c["technique"],
        })
na = [{"property_id": pid, "reason": M.NOT_APPLICABLE.get(pid, M.NOT_YET)} for pid in props if pid not in M.CLAIMED]
man = {
    "version": 1,
    "setup_cmd": M.SETUP,
    "hooks": M.HOOKS,
    "engines": M.ENGINES,
    "checks": checks,
    "notes": M.NOTES,
    "not_applicable": na,
}
json.dump(man, open(os.path.join(VERIF, "MANIFEST.json"), "w"), indent=1)
print("claimed", len(checks), "not_applicable", len(na))
