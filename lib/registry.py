"""Property -> engine table."""
import importlib

from common import Outcome

# property id -> (engine module, level, assumptions)
CHECKS = {
    "C05": ("eng_walring", "model_checking",
            ["TLC and the community modules are correct",
             "the 3-cell header abstraction: scanned positions hold whole records or sentinels (DESIGN 4.1)",
             "x16 scaling is exact because the code's arithmetic is linear in sizes"]),
}

_CORE_ASSUME = ["TLC and the community modules are correct",
                "the harness projection (frame table, payload-id table, file-byte parser) and the concretisation of abstract payloads are trusted",
                "histories are crash-free except for `abandon` (handle lost between two calls)",
                "small-scope hypothesis for the exhaustive part (<= 3 frames, <= 5..7 calls, 8-unit log)"]
for _p in ("C01", "C06", "C07", "C08", "C14", "C15", "C18", "C19", "C21", "C24", "C25", "C26", "C27", "C42"):
    CHECKS[_p] = ("eng_core", "model_checking", _CORE_ASSUME)


CHECKS["C17"] = ("eng_lock", "model_checking",
                 ["TLC and the community modules are correct",
                  "flock() semantics of the kernel (locks belong to the open file description; two handles in one process conflict like two processes); a cross-process probe is sampled",
                  "the harness's independent probe (fresh descriptor, LOCK_NB) observes the lock table faithfully",
                  "small-scope hypothesis for the exhaustive part: 2 processes, <= 3 commits"])


_FUNC_ASSUME = ["TLC and the community modules are correct",
                "the transcription in spec/ was made by reading the code; the conformance step (real function on every case, output compared by TLC) is what binds it",
                "the concretisation of abstract inputs in harness/src/func.rs",
                "small-scope hypothesis for the exhaustive part; random larger cases beyond it"]
for _p in ("C29", "C30", "C31", "C32", "C34", "C35", "C37"):
    CHECKS[_p] = ("eng_func", "model_checking", _FUNC_ASSUME)


_DISK_ASSUME = ["TLC and the community modules are correct",
                "the recorder shim sees every mutation of the memory's directory (libc entry points used by Rust std, nix, atomic-write-file)",
                "process-crash model: completed system calls persist, each is atomic",
                "power-loss model: whole un-synced operations are lost / reordered, the last may be torn at half; a new file's directory entry is durable once the file is fsynced (ext4-like); renames need a directory fsync",
                "the harness projection and payload registry (as in the core engine)"]
for _p in ("C02", "C03", "C04", "C20", "C22"):
    CHECKS[_p] = ("eng_disk", "model_checking", _DISK_ASSUME)


_QUERY_ASSUME = ["TLC and the community modules are correct",
                 "the harness concretisation of documents (8-word vocabulary, tags, ACL metadata shapes, integer embeddings) and its projection of hits",
                 "ranking is not judged: hits are compared as sets / by order-independent contracts",
                 "integer-valued 4-dimensional embeddings so that squared L2 distances are exact in f32"]
for _p in ("C09", "C10", "C11", "C12", "C13", "C16", "C28", "C40"):
    CHECKS[_p] = ("eng_query", "model_checking", _QUERY_ASSUME)
CHECKS["C08"] = (("eng_core", "eng_query"), "model_checking", _CORE_ASSUME + _QUERY_ASSUME[1:3])

CHECKS["C41"] = ("eng_worker", "model_checking", ["TLC and the community modules are correct",
                 "the hook events are emitted inside the worker's closures while the Mutex<Memvid> is held, and ordered by a sequence number taken under the tracer's lock",
                 "seeded sleeps explore interleavings; they do not enumerate them (the exhaustive part is the model, <= 3-4 puts)"])
CHECKS["C23"] = ("eng_det", "model_checking", _CORE_ASSUME[:2] + ["the two executions run in separate processes of the same build on the same machine"])

# properties decided by two engines: the crash-left inputs come from the disk engine
CHECKS["C21"] = (("eng_core", "eng_disk"), "model_checking", _CORE_ASSUME + _DISK_ASSUME[1:4])
CHECKS["C18"] = (("eng_core", "eng_disk"), "model_checking", _CORE_ASSUME + _DISK_ASSUME[1:4])


def _merge(covs):
    out = {}
    for c in covs:
        for k, v in c.items():
            if k in ("states", "transitions", "traces_validated_against_impl", "evaluations", "distinct_nontrivial") and isinstance(v, int):
                out[k] = out.get(k, 0) + v
            elif k == "samples":
                out.setdefault("samples", []).extend(v[:2])
            elif k == "rule":
                out["rule"] = (out.get("rule", "") + " || " + v).strip(" |")
            elif k == "exhaustive":
                out["exhaustive"] = out.get("exhaustive", True) and v
            else:
                out.setdefault(k, v) if k not in out else out.update({k + "_2": v})
    return out


def run(prop, tier, replay=None):
    modnames, level, assumptions = CHECKS[prop]
    if isinstance(modnames, str):
        modnames = (modnames,)
    out = Outcome(prop, tier)
    if replay:
        import json
        eng = json.load(open(replay)).get("replay", {}).get("engine")
        for m in modnames:
            if eng is None or m == "eng_" + eng:
                return importlib.import_module(m).replay(prop, replay, out)
        return importlib.import_module(modnames[0]).replay(prop, replay, out)
    covs = []
    for m in modnames:
        mod = importlib.import_module(m)
        covs.append(mod.run(tier, out) if not hasattr(mod, "run_prop") else mod.run_prop(prop, tier, out))
    return out.finish(level, covs[0] if len(covs) == 1 else _merge(covs), assumptions)
