"""Property -> engine table."""
import importlib

from common import Outcome

# property id -> (engine module, level, assumptions)
CHECKS = {
    "C05": ("eng_walring", "model_checking",
            ["TLC and the community modules are correct",
             "the 3-cell header abstraction: scanned positions hold whole records or sentinels (DESIGN 4.1)",
             "x16 scaling is exact because the code's arithmetic is linear in sizes"]),
}

_CORE_ASSUME = ["TLC and the community modules are correct",
                "the harness projection (frame table, payload-id table, file-byte parser) and the concretisation of abstract payloads are trusted",
                "histories are crash-free except for `abandon` (handle lost between two calls)",
                "small-scope hypothesis for the exhaustive part (<= 3 frames, <= 5..7 calls, 8-unit log)"]
for _p in ("C01", "C06", "C07", "C08", "C14", "C15", "C18", "C19", "C21", "C24", "C25", "C42"):
    CHECKS[_p] = ("eng_core", "model_checking", _CORE_ASSUME)


CHECKS["C17"] = ("eng_lock", "model_checking",
                 ["TLC and the community modules are correct",
                  "flock() semantics of the kernel (locks belong to the open file description; two handles in one process conflict like two processes); a cross-process probe is sampled",
                  "the harness's independent probe (fresh descriptor, LOCK_NB) observes the lock table faithfully",
                  "small-scope hypothesis for the exhaustive part: 2 processes, <= 3 commits"])


_FUNC_ASSUME = ["TLC and the community modules are correct",
                "the transcription in spec/ was made by reading the code; the conformance step (real function on every case, output compared by TLC) is what binds it",
                "the concretisation of abstract inputs in harness/src/func.rs",
                "small-scope hypothesis for the exhaustive part; random larger cases beyond it"]
for _p in ("C31", "C32", "C35", "C37"):
    CHECKS[_p] = ("eng_func", "model_checking", _FUNC_ASSUME)


def run(prop, tier, replay=None):
    modname, level, assumptions = CHECKS[prop]
    mod = importlib.import_module(modname)
    out = Outcome(prop, tier)
    if replay:
        return mod.replay(prop, replay, out)
    coverage = mod.run(tier, out) if not hasattr(mod, "run_prop") else mod.run_prop(prop, tier, out)
    return out.finish(level, coverage, assumptions)
