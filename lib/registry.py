"""Property -> engine table."""
import importlib

from common import Outcome

# property id -> (engine module, level, assumptions)
CHECKS = {
    "C05": ("eng_walring", "model_checking",
            ["TLC and the community modules are correct",
             "the 3-cell header abstraction: scanned positions hold whole records or sentinels (DESIGN 4.1)",
             "x16 scaling is exact because the code's arithmetic is linear in sizes"]),
}


def run(prop, tier, replay=None):
    modname, level, assumptions = CHECKS[prop]
    mod = importlib.import_module(modname)
    out = Outcome(prop, tier)
    if replay:
        return mod.replay(prop, replay, out)
    coverage = mod.run(tier, out) if not hasattr(mod, "run_prop") else mod.run_prop(prop, tier, out)
    return out.finish(level, coverage, assumptions)
