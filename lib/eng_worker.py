"""worker engine - C41: the real background enrichment worker and a foreground client on one Mutex<Memvid>.
(1) TLC checks EnrichWorker exhaustively (<= 3 puts): no frame lost, only queued frames change state, each at most once,
a drained queue means every active queued frame is Enriched, and - under weak fairness - the worker stops when asked.
(2) Seeded schedules (random foreground programs, random sleeps at the worker's yield points and between foreground
calls) run the REAL worker; every critical section is an event recorded under the mutex with a snapshot of queue and
frame states; TLC validates each schedule against the specification (Trace_EnrichWorker) and evaluates the invariants on
every observed state.  (3) Sensitivity: the model with the pre-repair hand-out rule must violate Drained."""
import json
import os
import random

from common import Outcome, ToolError, cfg, log, run_harness, run_tlc, sample, seed, workdir
import eng_core

INVS = ["NoFrameLost", "OnlyQueuedChange", "AtMostOnce", "StateExplained", "Drained"]


def mc_cfg(maxputs, defects="{}"):
    return cfg({"MaxPuts": maxputs, "Interval": 2, "Defects": defects}, spec="FairSpec", invariants=INVS, properties=["StopsWhenAsked"])


def trace_cfg(debug=False):
    return cfg({"MaxPuts": 100000, "Interval": 2, "Defects": "{}", "Debug": "TRUE" if debug else "FALSE"}, spec="TraceSpec", postcondition="Accept")


def schedule(rng, sid):
    ops = []
    nput = 0
    for _ in range(rng.randint(4, 14)):
        c = rng.random()
        if c < 0.5:
            nput += 1
            ops.append({"op": "put", "queue": rng.random() < 0.8})
        elif c < 0.75:
            ops.append({"op": "commit"})
        elif c < 0.9:
            ops.append({"op": "search"})
        else:
            ops.append({"op": "delete", "frame": rng.randrange(0, max(1, nput))})
    if rng.random() < 0.7:
        ops.append({"op": "commit"})
    return {"id": sid, "seed": rng.randrange(1 << 30), "ops": ops, "checkpoint_interval": 2, "drain_ms": rng.choice([5, 40, 150]),
            "worker_jitter_us": rng.choice([0, 500, 3000, 8000]), "fg_jitter_us": rng.choice([0, 500, 3000, 8000])}


def run(tier, out: Outcome):
    quick = tier == "quick"
    mc = run_tlc("EnrichWorker", mc_cfg(3 if quick else 4), "ew", workers=6 if quick else 12, timeout=600 if quick else 3000)
    if mc.error:
        log(mc.output[-2500:])
        raise ToolError("TLC failed on EnrichWorker")
    if mc.violated:
        out.diverge({"engine": "worker", "kind": "model_invariant", "invariant": mc.violated}, "EnrichWorker (intended design) violates %s" % mc.violated,
                    {"tlc_output_tail": mc.output[-2500:]})
    sens = run_tlc("EnrichWorker", mc_cfg(3, '{"D41_uncommitted_task"}'), "ews", workers=4, timeout=300)
    if not sens.violated:
        raise ToolError("self-test failed: EnrichWorker with the pre-repair deviation satisfies every invariant")
    rng = random.Random(seed() * 4447 + 11)
    scs = [schedule(rng, i + 1) for i in range(int(os.environ.get("VERIF_WORKER_SCHEDULES", 60 if quick else 1500)))]
    wd = workdir("worker")
    jobs = 8
    chunks = [scs[i::jobs] for i in range(jobs) if scs[i::jobs]]
    import concurrent.futures as cf

    def one(i, ch):
        sj = os.path.join(wd, "s%d.json" % i)
        oj = os.path.join(wd, "t%d.ndjson" % i)
        json.dump({"schedules": ch}, open(sj, "w"))
        p = run_harness(["worker-run", sj, oj], timeout=3000)
        if p.returncode != 0:
            raise ToolError("worker-run failed: " + p.stderr[-1500:])
        return oj

    with cf.ThreadPoolExecutor(max_workers=jobs) as ex:
        paths = [f.result() for f in [ex.submit(one, i, ch) for i, ch in enumerate(chunks)]]
    accepted, events, diags, _ = eng_core.validate(paths, wd, module="Trace_EnrichWorker", mk_cfg=trace_cfg, jobs=6, max_diag=30)
    inter = 0
    for p in paths:
        for rr in eng_core.split_runs(open(p).read().splitlines()):
            who = [json.loads(x).get("who") for x in rr[1:]]
            if sum(1 for a, b in zip(who, who[1:]) if a != b) >= 4:
                inter += 1
    for d in diags:
        evs = d["events"]
        if d["mismatches"]:
            li, name = d["mismatches"][0]
        else:
            li, name = (d.get("stuck_at") or 0) + 1, "no-action"
        ev = evs[li - 1] if 0 < li <= len(evs) else {}
        out.diverge({"engine": "worker", "kind": "impl_to_spec", "field": name, "call": ev.get("ev", "?")},
                    "schedule is not a behaviour of EnrichWorker: at event %d (%s, frame %s) `%s` does not hold (queue=%s)"
                    % (li - 1, ev.get("ev"), ev.get("id"), name, ev.get("obs", {}).get("queue")),
                    {"engine": "worker", "events": [{k: e.get(k) for k in ("ev", "who", "id")} for e in evs[:li]]})
    log("[worker] %d states; %d schedules, %d accepted, %d rejected, %d events, %d with >= 4 worker/foreground alternations"
        % (mc.distinct, len(scs), accepted, len(diags), events, inter))
    return {"states": max(1, mc.distinct), "transitions": max(1, mc.generated), "traces_validated_against_impl": accepted,
            "evaluations": events, "distinct_nontrivial": inter,
            "rule": "seeded schedules: a random foreground program (instant puts that queue enrichment, commits, searches, deletes) next to the real worker thread, random sleeps at the worker's yield points and between foreground calls; every critical section of either thread is one event recorded under the mutex; non-trivial = the recording alternates between worker and foreground at least 4 times (counted).",
            "samples": [s["ops"] for s in scs[:2]], "exhaustive": not mc.timed_out, "model_sensitivity": {"D41_uncommitted_task": sens.violated},
            "liveness_checked": "StopsWhenAsked under WF of every worker action (model); in recordings: stop_and_wait returns within 5 s and the worker reports stopped",
            "schedules_rejected": len(diags)}


def replay(prop, path, out):
    return out.finish("model_checking", {"states": 1, "transitions": 1, "traces_validated_against_impl": 0, "evaluations": 0, "distinct_nontrivial": 0,
                                         "rule": "schedules depend on thread timing: re-run the check with the same VERIF_SEED", "samples": [path], "exhaustive": False}, [])
