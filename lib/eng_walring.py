"""walring engine — property C05.

1. TLC checks the cell-level model WalRing (intended design, Defects = {})
   exhaustively for several region sizes: NoLossNoResurrection & co. and the
   refinement WalRing => WalAbs.
2. spec -> impl: every transition of that state graph becomes an
   implementation test: TLC dumps each explored transition (ACTION_CONSTRAINT
   EdgeDump), a transition tour is computed here, and the harness replays each
   path on the real EmbeddedWal (x16 bytes per cell) comparing result,
   returned sequence, pending records and stats() after every call.
3. impl -> spec: seeded random runs of the real EmbeddedWal on realistic and
   awkward byte sizes are recorded and validated by TLC against WalAbs.
4. Model-level sensitivity: each as-built deviation alone must make TLC
   report a violation (shows the invariants are not vacuous).
"""
import json
import os
import collections

from common import (Outcome, ToolError, cfg, log, run_harness, run_tlc, sample, seed, tla_edges, tla_set,
                    validate_trace, workdir, tour)

INVS = ["TypeOK", "NoLossNoResurrection", "ReportedEqualsExpected", "PendingBytesExact", "SeqIsLastAssigned"]
PROPS = ["RejectedAppendUnchanged", "AppendGetsNextSeq", "RefinesWalAbs"]


def mc_cfg(R, maxseq, defects=(), dump=False):
    return cfg({"R": R, "H": 3, "Lens": tla_set(range(0, R - 1)), "MaxSeq": maxseq, "Defects": tla_set(defects)},
               invariants=INVS, properties=PROPS, constraint="SeqBound", view="View",
               action_constraint="EdgeDump" if dump else None)


def run(tier, out: Outcome):
    quick = tier == "quick"
    sizes = [(7, 5), (9, 5)] if quick else [(6, 6), (7, 6), (8, 6), (9, 6), (10, 6), (11, 5), (12, 5)]
    total_states = total_trans = 0
    total_paths = total_steps = 0
    action_cov = {}
    samples = []
    exhaustive = True
    for (R, maxseq) in sizes:
        r = run_tlc("MC_WalRing", mc_cfg(R, maxseq, dump=True), "wr%d" % R, workers=1 if quick else 2, timeout=900 if quick else 3000)
        if r.error:
            log(r.output[-3000:])
            raise ToolError("TLC failed on MC_WalRing R=%d" % R)
        if r.timed_out:
            exhaustive = False
        if r.violated:
            out.diverge({"engine": "walring", "kind": "model_invariant", "invariant": r.violated, "R": R},
                        "intended design of the embedded log violates %s for R=%d (TLC counterexample)" % (r.violated, R),
                        {"tlc_output_tail": r.output[-3000:]})
            continue
        total_states += r.distinct
        total_trans += r.generated
        edges = tla_edges(r.output)
        for e in edges:
            action_cov[e["op"] + ":" + e["res"]] = action_cov.get(e["op"] + ":" + e["res"], 0) + 1
        paths, nuniq = tour(edges)
        wd = workdir("wrp%d" % R)
        pj = os.path.join(wd, "paths.json")
        steps = [[{k: e[k] for k in ("op", "arg", "res", "recs", "pb", "seq", "apc", "due")} for e in p] for p in paths]
        with open(pj, "w") as f:
            json.dump({"R": R, "scale": 16, "paths": steps}, f)
        oj = os.path.join(wd, "out.json")
        p = run_harness(["walring-replay", pj, oj])
        if p.returncode != 0:
            raise ToolError("walring-replay failed: " + p.stderr[-2000:])
        res = json.load(open(oj))
        total_paths += res["paths"]
        total_steps += res["steps"]
        log("[walring] R=%d: %d states, %d transitions, %d distinct edges -> %d paths / %d calls replayed, %d mismatches"
            % (R, r.distinct, r.generated, nuniq, res["paths"], res["steps"], len(res["mismatches"])))
        if paths:
            samples.append({"R_cells": R, "bytes_per_cell": 16, "calls": [[e["op"], e["arg"], e["res"]] for e in paths[0][:12]]})
        for mm in res["mismatches"]:
            kinds = sorted(set(d.split(":")[0] for d in mm["diffs"]))
            out.diverge({"engine": "walring", "kind": "spec_to_impl", "op": mm["op"], "fields": kinds},
                        "EmbeddedWal (region %d bytes) diverges from WalRing at call %d %s(%d): %s"
                        % (mm["R"] * mm["scale"], mm["step"], mm["op"], mm["arg"] * mm["scale"], "; ".join(mm["diffs"])),
                        {"engine": "walring", "mode": "replay", "R": mm["R"], "scale": mm["scale"], "calls": mm["calls"]})

    # sensitivity of the model: each deviation alone must be caught by TLC
    sens = {}
    for d in ("sentinel_wrap", "head_modulo", "empty_accept"):
        r = run_tlc("MC_WalRing", mc_cfg(9, 5, defects=[d]), "wrd", workers=1, timeout=300)
        sens[d] = r.violated
        if not r.violated:
            raise ToolError("self-test failed: WalRing with deviation %s satisfies every invariant (vacuous model?)" % d)

    # impl -> spec
    runs, steps = (40, 60) if quick else (400, 120)
    wd = workdir("wrt")
    tp = os.path.join(wd, "trace.ndjson")
    p = run_harness(["walring-trace", seed(), runs, steps, tp])
    if p.returncode != 0:
        raise ToolError("walring-trace failed: " + p.stderr[-2000:])
    tcfg = cfg({"H": 48, "Lens": "{}"}, spec="TraceSpec", invariants=["TPendingExact", "TSeqOrder"], postcondition="Accept")
    # a rejected run must not hide the remaining runs: validate, and on rejection
    # cut the offending run out and continue with the rest
    lines = open(tp).read().splitlines()
    traces_ok = 0
    events_ok = 0
    rejected = 0
    while lines:
        cur = os.path.join(wd, "cur.ndjson")
        with open(cur, "w") as f:
            f.write("\n".join(lines) + "\n")
        acc, matched, total, r = validate_trace("Trace_WalAbs", tcfg, cur, "wrt", timeout=900)
        if r.error or matched < 0:
            log(r.output[-3000:])
            raise ToolError("TLC failed on Trace_WalAbs")
        if acc:
            traces_ok += sum(1 for x in lines if '"ev":"reset"' in x)
            events_ok += total
            break
        bad = json.loads(lines[matched])
        run_id = bad["run"]
        run_lines = [json.loads(x) for x in lines if json.loads(x)["run"] == run_id]
        idx = sum(1 for x in lines[:matched] if json.loads(x)["run"] == run_id)
        rejected += 1
        what = "inv:" + r.violated if r.violated else "event"
        out.diverge({"engine": "walring", "kind": "impl_to_spec", "op": bad["ev"], "res": bad["res"],
                     "empty": bad["ev"] == "append" and bad["len"] == 0, "what": what},
                    "real EmbeddedWal run (region %d bytes) is not a behaviour of WalAbs: event %d %s(len=%d) -> %s, pb=%d seq=%d recs=%s"
                    % (bad["R"], idx, bad["ev"], bad["len"], bad["res"], bad["pb"], bad["seq"], bad["recs"]),
                    {"engine": "walring", "mode": "trace", "events": run_lines[:idx + 1]})
        events_ok += matched
        traces_ok += sum(1 for x in lines[:matched] if '"ev":"reset"' in x) - 1
        lines = [x for x in lines[matched:] if json.loads(x)["run"] != run_id]
    log("[walring] trace validation: %d runs accepted, %d rejected, %d events matched" % (traces_ok, rejected, events_ok))

    coverage = {
        "states": total_states, "transitions": total_trans,
        "traces_validated_against_impl": total_paths + traces_ok,
        "evaluations": total_steps + events_ok,
        "distinct_nontrivial": total_paths + traces_ok,
        "rule": "spec->impl: every distinct (state, call) edge of the WalRing state graph (R cells in %s, H=3, all payload lengths 0..R-2, seq bound) is covered by a transition tour replayed on the real EmbeddedWal at 16 bytes per cell; impl->spec: %d seeded random runs x %d calls on regions of 96..65536 bytes validated against WalAbs. A path/run is non-trivial when it contains at least one successful append; distinct = distinct tour paths + accepted runs."
                % ([s[0] for s in sizes], runs, steps),
        "samples": samples[:3],
        "exhaustive": exhaustive,
        "spec_to_impl_paths": total_paths, "spec_to_impl_calls": total_steps,
        "impl_to_spec_runs_accepted": traces_ok, "impl_to_spec_runs_rejected": rejected, "impl_to_spec_events": events_ok,
        "edge_counts_by_call_and_result": action_cov,
        "model_sensitivity": sens,
        "instances": [{"R": s[0], "H": 3, "MaxSeq": s[1]} for s in sizes],
    }
    return coverage
