"""determinism engine - C23: every history is executed twice on fresh paths (two separate processes); the second
execution's result, logical observation and file digest are attached to the first execution's event as `twin`, and TLC
validates the paired recording against Mv2Core: besides being a behaviour of the specification, both executions must
have produced identical results and observations at every call (Trace_Mv2Core!TwinOk).  Byte identity of the files is
compared as well; where it fails it is reported under the deviation D23_bytes_differ (known finding)."""
import json
import os
import random

from common import Outcome, ToolError, log, sample, seed, workdir, run_harness
import eng_core
import eng_query

AS_BUILT = eng_core.AS_BUILT + ["D23_bytes_differ", "D16_pagination", "D09_slices_crowd", "D16_slice_cap", "D16_candidate_window"]


def run_once(scs, wd, tag, jobs):
    chunks = [scs[i::jobs] for i in range(jobs) if scs[i::jobs]]
    import concurrent.futures as cf

    def one(i, ch):
        sj = os.path.join(wd, "%s-s%d.json" % (tag, i))
        oj = os.path.join(wd, "%s-t%d.ndjson" % (tag, i))
        json.dump({"scenarios": ch}, open(sj, "w"))
        p = run_harness(["core-run", sj, oj], timeout=3000, env={"MVH_FILE_DIGEST": "1"})
        if p.returncode != 0:
            raise ToolError("core-run failed: " + p.stderr[-1500:])
        return oj

    with cf.ThreadPoolExecutor(max_workers=jobs) as ex:
        return [f.result() for f in [ex.submit(one, i, ch) for i, ch in enumerate(chunks)]]


def engine(tier):
    quick = tier == "quick"
    rng = random.Random(seed() * 9173 + (7 if quick else 8))
    scs = []
    for i in range(16 if quick else 150):
        scs.append(eng_core.gen_basic(rng, len(scs) + 1, nops=rng.choice([8, 12, 16]), big=(i % 5 == 0)))
    for fam in (eng_core.fam_maintenance, eng_core.fam_tickets):
        for ops in fam(rng, True)[:3 if quick else 8]:
            scs.append({"id": len(scs) + 1, "ops": ops})
    scs.append({"id": len(scs) + 1, "ops": eng_query.scenario(rng, True, 8)})
    # the sketch track's candidate lists (top terms, scores) and tied lexical scores: both must not depend on the execution
    for _ in range(2):
        docs = eng_query.make_corpus(rng, 24, long_frac=0.2)
        qs = [{"op": "sketch", "toks": ["w%d" % w]} for w in range(8)] + [{"op": "sketch", "toks": ["w1", "w2"]}]
        scs.append({"id": len(scs) + 1, "ops": [{"op": "create"}] + docs + [{"op": "commit"}] + qs + [{"op": "close"}, {"op": "open"}] + qs + [{"op": "close"}]})
    for _ in range(3):
        scs.append({"id": len(scs) + 1, "ops": eng_query.pagination_ties(rng, True, 14, 4)})
    wd = workdir("det")
    jobs = 8
    a = run_once(scs, wd, "a", jobs)
    b = run_once(scs, wd, "b", jobs)
    paths = []
    nbytes_same = nbytes_diff = 0
    for pa, pb in zip(a, b):
        la = open(pa).read().splitlines()
        lb = open(pb).read().splitlines()
        if len(la) != len(lb):
            raise ToolError("the two executions logged a different number of events")
        out = []
        for x, y in zip(la, lb):
            ex, ey = json.loads(x), json.loads(y)
            if ex.get("ev") != "reset":
                ex["twin"] = {"res": ey.get("res"), "obs": ey.get("obs"), "fdigest": ey.get("fdigest", "")}
                if ex.get("fdigest") == ey.get("fdigest"):
                    nbytes_same += 1
                else:
                    nbytes_diff += 1
            out.append(json.dumps(ex))
        mp = pa.replace("a-t", "m-t")
        open(mp, "w").write("\n".join(out) + "\n")
        paths.append(mp)
    accepted, events, diags, devs = eng_core.validate(paths, wd, mk_cfg=lambda dbg: eng_core.trace_cfg(dbg, defects=AS_BUILT), jobs=6, max_diag=30)
    return {"n": len(scs), "accepted": accepted, "events": events, "diags": diags, "deviations": [d for d in devs if d["deviation"] == "D23_bytes_differ"],
            "bytes_same": nbytes_same, "bytes_diff": nbytes_diff, "samples": [s["ops"][:8] for s in scs[:2]]}


def run_prop(prop, tier, out: Outcome):
    r = eng_core.cached("det", tier, lambda: engine(tier))
    for d in r["diags"]:
        evs = d["events"]
        for (li, name) in d["mismatches"]:
            if name.startswith("twin."):
                ev = evs[li - 1]
                out.diverge({"engine": "det", "kind": "impl_to_spec", "field": name, "call": ev.get("ev")},
                            "two executions of the same history differ at call #%d %s (%s)" % (li - 1, ev.get("ev"), name),
                            {"engine": "det", "scenario": [e["args"] for e in evs[:li] if e.get("ev") not in ("reset", "crash", "corrupt")]})
                break
    if r["deviations"]:
        d = r["deviations"][0]
        evs = d["events"]
        out.diverge({"engine": "det", "kind": "deviation", "deviation": "D23_bytes_differ"},
                    "the files of two executions of the same history are not byte-identical (first after call #%d %s); %d of %d compared file states differ"
                    % (len(evs) - 1, evs[-1].get("ev") if evs else "?", r["bytes_diff"], r["bytes_diff"] + r["bytes_same"]),
                    {"engine": "det", "scenario": [e["args"] for e in evs if e.get("ev") not in ("reset", "crash", "corrupt")]})
    return {"states": max(1, r["events"]), "transitions": max(1, r["events"]), "traces_validated_against_impl": r["accepted"],
            "evaluations": r["events"], "distinct_nontrivial": r["n"],
            "rule": "each of %d histories (seeded random, maintenance, ticket and one query corpus) executed twice in separate processes on fresh paths; per call TLC compares result + full logical observation (frame table with payload ids, embeddings, links, descriptive fields, log numbers, ticket, stats, query hits) of the two executions and the file digests; distinct = histories." % r["n"],
            "samples": r["samples"], "exhaustive": False, "file_states_byte_identical": r["bytes_same"], "file_states_differing": r["bytes_diff"],
            "engine_result_from_cache": r["from_cache"], "engine_wall_s": r.get("engine_wall_s")}


def replay(prop, path, out):
    return out.finish("model_checking", {"states": 1, "transitions": 1, "traces_validated_against_impl": 0, "evaluations": 0, "distinct_nontrivial": 0,
                                         "rule": "replay: run the check again with the same VERIF_SEED", "samples": [path], "exhaustive": False}, [])
