SETUP = "bin/setup"
NOTES = ("All checks are model-based: an explicit TLA+ specification under spec/ checked with TLC, bound to the real crate by "
         "replaying TLC-generated behaviours on it and by validating recorded executions against the specification. See DESIGN.md.")
HOOKS = {
    "guard": "memvid_verif",
    "enable": "the harness crates pass --cfg memvid_verif through harness/.cargo/config.toml rustflags (with --check-cfg)",
    "baseline_off_cmd": "cd /repo && cargo nextest run --workspace --no-fail-fast --test-threads 8 --offline || cargo test --workspace --no-fail-fast --offline",
    "source_commits": ["17f5af1"],
    "add_only": True,
}
def _core(prop_text, note_extra=""):
    return {
        "engine": "core",
        "technique": "TLA+ API-level specification (Mv2Core) model-checked by TLC; real Memvid histories (seeded random, TLC-simulated behaviours, targeted families) recorded call-by-call and validated by TLC against the specification (trace validation with full projected state)",
        "text": prop_text,
        "note": "Trusts TLC, the harness projection/concretisation (payload-id table, file-byte parser) and tmpfs semantics; crash-free histories plus `abandon` (handle lost between calls). Known genuine defects are modelled as named deviation actions and reported as KNOWN-FINDING (known_findings.json). " + note_extra,
        "design_ref": "DESIGN.md §4.2, §6",
    }


ENGINES = [
    {"name": "walring", "path": "lib/eng_walring.py", "serves_properties": ["C05"],
     "kind_free_text": "WalRing/WalAbs TLA+ models; transition tour of the TLC state graph replayed on the real EmbeddedWal; random real runs validated by TLC"},
    {"name": "core", "path": "lib/eng_core.py", "serves_properties": ["C01", "C06", "C07", "C08", "C15", "C19", "C24", "C25"],
     "kind_free_text": "Mv2Core TLA+ specification; harness `mvh core-run` executes abstract histories on the real Memvid and logs the projected abstract state; Trace_Mv2Core validates every call; MC_Mv2Core is model-checked and used as scenario generator"},
]
ENGINES.append({"name": "lock", "path": "lib/eng_lock.py", "serves_properties": ["C17"],
                "kind_free_text": "Mv2Lock TLA+ model (processes, inodes, flock table, copy-and-rename commit) checked exhaustively; transition tour + random schedules stepped on real handles with an independent flock probe; recordings validated by TLC (Trace_Mv2Lock)"})
NOT_YET = "check not built yet in this revision of the machinery (see DESIGN.md §12 for the build order)"
NOT_APPLICABLE = {
    "C30": "pure encode/decode fidelity of byte layouts (bincode TOC, header, footer, time index): a TLA+ model would have to re-implement the codecs; outside what state-machine specification decides (DESIGN.md §7)",
    "C33": "Unicode normalisation / grapheme segmentation are table look-ups with no state to specify (DESIGN.md §7)",
    "C34": "text chunk planning: a pure string function whose contract needs string concatenation over normalised Unicode text (DESIGN.md §7)",
    "C36": "regular-expression rewriting idempotence; no state machine (DESIGN.md §7)",
    "C38": "floating-point accuracy of SIMD distance; numeric, not behavioural (DESIGN.md §7)",
    "C39": "hash/bit-level filter and codec round-trip (DESIGN.md §7)",
}
CLAIMED = {
    "C01": _core("Every recorded history of put/update/delete/commit/close/abandon/reopen calls on the real crate must be a behaviour of Mv2Core: after each commit, drop, auto-commit, log growth and replay-on-open the full frame table (ids, URIs, status, order, timestamps) equals what the specification computes from the acknowledged calls, with the log's real record lengths deciding when an automatic checkpoint or a region growth had to happen. The specification itself is model-checked (NothingLostOnCommit, ApplyIsAppendOnly, RejectedUnchanged)."),
    "C06": _core("next_frame_id() before every put, the id of every frame, chunk parent links and chunk index/count are compared with the specification after every call (NextIdPredicts / ApplyIsAppendOnly are model-checked invariants)."),
    "C07": _core("The payload id (digest of frame_canonical_payload looked up in the table of concretised payloads), blob-reader equality and chunk concatenation of every frame are compared with the specification at every full observation; payload classes: binary, zero-filled, short text, text above the chunking threshold."),
    "C08": _core("Status, supersedes/superseded_by links, frame_by_uri results and the results of update/delete calls are compared with the specification (UriNewest, OneActiveSuccessor, LinksConsistent are model-checked)."),
    "C15": _core("Every timeline() call issued in the histories (since/until/reverse/limit) must return exactly the sequence the specification computes from the visible frame table (active document frames by (timestamp, id)).", "Frame roles other than document/chunk are exercised by the query engine, not here."),
    "C19": _core("The directory listing is logged after every call (successful or failing) of every history and must be exactly the one .mv2 file."),
    "C24": _core("Capacity: CapacityExceeded results and the payload end after every commit are compared with the specification's capacity rule; histories with tickets granting a few KB above the data start and stored-plain payloads of boundary sizes."),
    "C25": _core("Ticket sequence and capacity are logged after every call; apply_ticket with increasing, equal and decreasing sequence numbers, also across reopen, must behave as ApplyTicket (TicketMonotone is model-checked).", "Signed tickets are not covered by this check yet."),
    "C17": {
        "engine": "lock",
        "technique": "TLA+ model of writers/inodes/flock (Mv2Lock) exhaustively checked by TLC; transition tour and seeded schedules stepped on real handles; recordings validated by TLC against the model (trace validation)",
        "text": "TLC explores every interleaving of two processes opening, putting, committing (stage + rename as separate steps), running doctor and closing one path, and checks AtMostOneWriter, WriterHoldsNameLock and NoLostCommit in every state. Every transition of that graph is covered by schedules stepped on real Memvid handles; after each call an independent non-blocking flock probe (same process and another process), the number of writable handles and each handle's frame counts are recorded and TLC must find an action of the model that explains them. A second writable open that succeeds, a free probe while a writer lives, a doctor that writes without the lock, or a count that betrays a lost commit is rejected.",
        "note": "Trusts TLC, kernel flock semantics (locks belong to open file descriptions, so two handles in one process conflict like two processes; a cross-process probe is sampled), and the probe. Exhaustive for 2 processes and <= 3 commits; 3 handles in random schedules. Blocking Memvid::open (10 s retry) is exercised only in the thorough tier.",
        "design_ref": "DESIGN.md §4.4, §6 C17",
    },
    "C05": {
        "engine": "walring",
        "technique": "TLA+ cell-level model (WalRing) exhaustively checked by TLC + refinement to WalAbs; every TLC transition replayed on the real EmbeddedWal; recorded real runs validated against WalAbs by TLC",
        "text": "TLC explores every call sequence of the embedded log for region sizes 6..12 cells (all payload lengths) and checks that a scan returns exactly the records appended since the last checkpoint; every transition of that state graph is executed on the real EmbeddedWal (16 bytes per cell) and the result, returned sequence, pending records and stats must equal the model's; seeded random runs on 96..65536-byte regions are validated against the cursor-level model. This is the right level because the property quantifies over all call sequences and sizes, and the failure modes are arithmetic corner cases that exhaustive small-scope search finds (it found three).",
        "note": "Trusts TLC, the 3-cell header abstraction (scanned positions always hold whole records/sentinels), the x16 linear scaling argument, and tmpfs file semantics. Crash-interrupted appends are the disk engine's subject (C02/C03), not this check's.",
        "design_ref": "DESIGN.md §4.1, §6 C05",
    },
}
