SETUP = "bin/setup"
NOTES = ("All checks are model-based: an explicit TLA+ specification under spec/ checked with TLC, bound to the real crate by "
         "replaying TLC-generated behaviours on it and by validating recorded executions against the specification. See DESIGN.md.")
HOOKS = {
    "guard": "memvid_verif",
    "enable": "the harness crates pass --cfg memvid_verif through harness/.cargo/config.toml rustflags (with --check-cfg)",
    "baseline_off_cmd": "cd /repo && cargo nextest run --workspace --no-fail-fast --test-threads 8 --offline || cargo test --workspace --no-fail-fast --offline",
    "source_commits": ["17f5af1"],
    "add_only": True,
}
def _core(prop_text, note_extra=""):
    return {
        "engine": "core",
        "technique": "TLA+ API-level specification (Mv2Core) model-checked by TLC; real Memvid histories (seeded random, TLC-simulated behaviours, targeted families) recorded call-by-call and validated by TLC against the specification (trace validation with full projected state)",
        "text": prop_text,
        "note": "Trusts TLC, the harness projection/concretisation (payload-id table, file-byte parser) and tmpfs semantics; crash-free histories plus `abandon` (handle lost between calls). Known genuine defects are modelled as named deviation actions and reported as KNOWN-FINDING (known_findings.json). " + note_extra,
        "design_ref": "DESIGN.md §4.2, §6",
    }


def _func(module, text, note_extra=""):
    return {
        "engine": "func",
        "technique": "TLA+ transcription of the algorithm (%s) model-checked by TLC against the property's statement; abstract cases executed on the real function and each (input, output) validated by TLC against the transcription and the contract" % module,
        "text": text,
        "note": "Trusts TLC, the transcription (bound to the code by the conformance step: every case runs on the real function and TLC compares), and the concretisation in harness/src/func.rs. " + note_extra,
        "design_ref": "DESIGN.md §4.7, §6",
    }


def _disk(text, note_extra=""):
    return {
        "engine": "disk",
        "technique": "real executions recorded at file-operation level (LD_PRELOAD), every crash / sampled power-loss directory reconstructed offline and recovered with the real code; the observations are crash events of the recorded history validated by TLC against the TLA+ specification Mv2Core (TCrash: recovered state must be the pre- or post-state of the in-flight call)",
        "text": text,
        "note": "Trusts TLC, the recorder shim (it must see every mutation), the offline reconstruction (lib/fsstate.py), the crash models stated in the evidence assumptions, and the harness projection. Five fixed histories in the quick tier, 24 more random ones in the thorough tier. Known genuine defects (in-place WAL growth, chunked puts that are not atomic, in-place ticket rewrite, torn log tail) are reported as KNOWN-FINDING by structural signature. " + note_extra,
        "design_ref": "DESIGN.md §4.3, §5, §6",
    }


def _query(text, note_extra=""):
    return {
        "engine": "query",
        "technique": "real query executions (seeded corpora and batteries, six handle phases) recorded call by call and validated by TLC against the TLA+ specification (Mv2Core frame table + Mv2Query contracts + model-checked QueryLang semantics)",
        "text": text,
        "note": "Trusts TLC, the harness concretisation/projection, and Mv2Core's frame table (itself validated call by call in the same recording). Ranking order is not judged. 4 corpora of 6..48 documents in the quick tier, 24 corpora up to 120 documents in the thorough tier. " + note_extra,
        "design_ref": "DESIGN.md §4.5, §6",
    }


ENGINES = [
    {"name": "walring", "path": "lib/eng_walring.py", "serves_properties": ["C05"],
     "kind_free_text": "WalRing/WalAbs TLA+ models; transition tour of the TLC state graph replayed on the real EmbeddedWal; random real runs validated by TLC"},
    {"name": "core", "path": "lib/eng_core.py", "serves_properties": ["C01", "C06", "C07", "C08", "C14", "C15", "C18", "C19", "C21", "C24", "C25", "C26", "C27", "C42"],
     "kind_free_text": "Mv2Core TLA+ specification; harness `mvh core-run` executes abstract histories on the real Memvid and logs the projected abstract state; Trace_Mv2Core validates every call; MC_Mv2Core is model-checked and used as scenario generator"},
]
ENGINES.append({"name": "lock", "path": "lib/eng_lock.py", "serves_properties": ["C17"],
                "kind_free_text": "Mv2Lock TLA+ model (processes, inodes, flock table, copy-and-rename commit) checked exhaustively; transition tour + random schedules stepped on real handles with an independent flock probe; recordings validated by TLC (Trace_Mv2Lock)"})
ENGINES.append({"name": "func", "path": "lib/eng_func.py", "serves_properties": ["C31", "C32", "C35", "C37"],
                "kind_free_text": "TLA+ transcriptions of self-contained algorithms (FooterScan, QueryLang, Snippet, Adaptive) model-checked against the property's own statement; abstract cases executed on the real functions and judged by TLC (Trace_Func)"})
ENGINES.append({"name": "disk", "path": "lib/eng_disk.py", "serves_properties": ["C02", "C03", "C04", "C20", "C22"],
                "kind_free_text": "LD_PRELOAD recorder of file mutations; offline reconstruction of every process-crash and sampled power-loss directory; real recovery (open, second open, verify, doctor, read-only) on each; crash events validated by TLC against Mv2Core (TCrash)"})
ENGINES.append({"name": "query", "path": "lib/eng_query.py", "serves_properties": ["C08", "C09", "C10", "C11", "C12", "C13", "C16", "C28", "C40"],
                "kind_free_text": "seeded corpora and query batteries on the real Memvid in six phases (pre-commit, committed, after deletes/updates, reopened rw/ro, after doctor rebuild); every query call is a trace event validated by TLC against Mv2Core + Mv2Query contracts"})
ENGINES.append({"name": "det", "path": "lib/eng_det.py", "serves_properties": ["C23"],
                "kind_free_text": "each history executed twice in separate processes; paired recording validated by TLC (Mv2Core + twin equality)"})
ENGINES.append({"name": "worker", "path": "lib/eng_worker.py", "serves_properties": ["C41"],
                "kind_free_text": "EnrichWorker TLA+ model (safety + liveness) and trace validation of real worker/foreground schedules recorded under the mutex"})
NOT_YET = "check not built yet in this revision of the machinery (see DESIGN.md §12 for the build order)"
NOT_APPLICABLE = {
    "C30": "pure encode/decode fidelity of byte layouts (bincode TOC, header, footer, time index): a TLA+ model would have to re-implement the codecs; outside what state-machine specification decides (DESIGN.md §7)",
    "C33": "Unicode normalisation / grapheme segmentation are table look-ups with no state to specify (DESIGN.md §7)",
    "C34": "text chunk planning: a pure string function whose contract needs string concatenation over normalised Unicode text (DESIGN.md §7)",
    "C36": "regular-expression rewriting idempotence; no state machine (DESIGN.md §7)",
    "C38": "floating-point accuracy of SIMD distance; numeric, not behavioural (DESIGN.md §7)",
    "C39": "hash/bit-level filter and codec round-trip (DESIGN.md §7)",
}
CLAIMED = {
    "C01": _core("Every recorded history of put/update/delete/commit/close/abandon/reopen calls on the real crate must be a behaviour of Mv2Core: after each commit, drop, auto-commit, log growth and replay-on-open the full frame table (ids, URIs, status, order, timestamps) equals what the specification computes from the acknowledged calls, with the log's real record lengths deciding when an automatic checkpoint or a region growth had to happen. The specification itself is model-checked (NothingLostOnCommit, ApplyIsAppendOnly, RejectedUnchanged)."),
    "C06": _core("next_frame_id() before every put, the id of every frame, chunk parent links and chunk index/count are compared with the specification after every call (NextIdPredicts / ApplyIsAppendOnly are model-checked invariants)."),
    "C07": _core("The payload id (digest of frame_canonical_payload looked up in the table of concretised payloads), blob-reader equality and chunk concatenation of every frame are compared with the specification at every full observation; payload classes: binary, zero-filled, short text, text above the chunking threshold."),
    "C08": _core("Status, supersedes/superseded_by links, frame_by_uri results and the results of update/delete calls are compared with the specification (UriNewest, OneActiveSuccessor, LinksConsistent are model-checked)."),
    "C14": _core("The embedding id of every frame as served by the vector index, and - for every embedding ever used - the exact set of frames vector search returns at distance 0, are compared with the specification (active frames given that embedding directly, via chunk embeddings, or carried over by an update) after commit, reopen, replay, vacuum and doctor (also with rebuild_vec_index).", "Default features: the brute-force index; the HNSW representation switch (feature hnsw_bench, >= 1000 vectors) is not built in this revision."),
    "C18": _core("Histories open read-only handles on files with and without pending log records and issue reads (timeline, frame_by_uri, vector probes, verify, stats); after every call the file's bytes (digest), length and mtime must equal those at open time, and the frame table shown must be the last committed one (the specification's OpenRO takes a snapshot of the committed table, never the pending window).", "Writes that restore identical bytes within the same mtime granularity would escape the digest/mtime comparison; the disk engine's recorder closes that gap when built."),
    "C21": _core("Doctor runs (all option combinations, dry runs, on files with pending log records left by a lost handle, after vacuum, twice in a row) are specification actions: the frame table, payload ids, descriptive fields and embeddings after doctor, the reported status (a second immediate run must be Clean) and the verification result (Passed after a healing run; verify() afterwards) are compared.", "Crash-interrupted and structurally damaged inputs belong to the disk engine and are not part of this check in this revision."),
    "C26": _core("Puts with triplet extraction and instant indexing are issued after deletes and commits have made WAL sequence numbers and frame ids drift apart; the card listing (source frame id, source URI, whether the frame text contains the value) and the enrichment queue (read through the verification hook) are compared with the specification's frame table: every extracted card and queue entry must name the frame that carries the document's URI.", "The extractor's rules are not modelled: only provenance and the value-in-text clause are judged."),
    "C27": _core("get_current / get_at_time are transcribed (CardsTrack.tla) and the C27 contract is model-checked for every card sequence of up to 3-4 cards; random explicit card sets (retractions, ties, event vs document dates) are put on the real memory and every query answer must be exactly the transcription's card, never a retraction or a card after t; the explicit card set listed after commit, close, reopen (rw / ro) and after a lost handle must be the persisted one."),
    "C42": _core("vacuum (directly and through doctor) is a specification action: ids, status, payload ids, descriptive fields, embeddings, timeline results and next_frame_id after vacuum, after further puts and after reopen must equal the specification's; verify() must pass once the handle is closed.", "Search results around vacuum are the query engine's subject."),
    "C15": _core("Every timeline() call issued in the histories (since/until/reverse/limit) must return exactly the sequence the specification computes from the visible frame table (active document frames by (timestamp, id)).", "Frame roles other than document/chunk are exercised by the query engine, not here."),
    "C19": _core("The directory listing is logged after every call (successful or failing) of every history and must be exactly the one .mv2 file."),
    "C24": _core("Capacity: CapacityExceeded results and the payload end after every commit are compared with the specification's capacity rule; histories with tickets granting a few KB above the data start and stored-plain payloads of boundary sizes."),
    "C25": _core("Ticket sequence and capacity are logged after every call; apply_ticket with increasing, equal and decreasing sequence numbers, also across reopen, must behave as ApplyTicket (TicketMonotone is model-checked).", "Signed tickets are not covered by this check yet."),
    "C17": {
        "engine": "lock",
        "technique": "TLA+ model of writers/inodes/flock (Mv2Lock) exhaustively checked by TLC; transition tour and seeded schedules stepped on real handles; recordings validated by TLC against the model (trace validation)",
        "text": "TLC explores every interleaving of two processes opening, putting, committing (stage + rename as separate steps), running doctor and closing one path, and checks AtMostOneWriter, WriterHoldsNameLock and NoLostCommit in every state. Every transition of that graph is covered by schedules stepped on real Memvid handles; after each call an independent non-blocking flock probe (same process and another process), the number of writable handles and each handle's frame counts are recorded and TLC must find an action of the model that explains them. A second writable open that succeeds, a free probe while a writer lives, a doctor that writes without the lock, or a count that betrays a lost commit is rejected.",
        "note": "Trusts TLC, kernel flock semantics (locks belong to open file descriptions, so two handles in one process conflict like two processes; a cross-process probe is sampled), and the probe. Exhaustive for 2 processes and <= 3 commits; 3 handles in random schedules. Blocking Memvid::open (10 s retry) is exercised only in the thorough tier.",
        "design_ref": "DESIGN.md §4.4, §6 C17",
    },
    "C31": _func("FooterScan", "TLC checks, for every byte string built from up to 4 tokens (filler cell, lone magic-first-byte cell, whole footers with zero/short/over-long TOC length, right/wrong hash, a magic-like byte inside the footer, truncated footers), that the transcribed backward scan returns exactly the valid footer ending at the highest offset. The same strings (exhaustive to 2-3 tokens, random to 12) are concretised with real magic, lengths and blake3 and run through the real find_last_valid_footer; TLC requires the returned offset, the TOC offset and 'the TOC bytes are what the footer describes' to equal the model's."),
    "C32": _func("QueryLang", "The recursive-descent parser is transcribed (implicit AND, nesting limit, error returns). TLC checks Eval(Parse(Show(ast))) = Eval(ast) for every AST of depth 2 over 3-4 atoms and every document (NOT > AND > OR). Well-formed queries printed from reference ASTs (exhaustive depth 2, random to depth 5, mixed-case keywords, words/phrase/field terms) must parse and match each of 8-16 documents exactly as the AST does on the real parser+evaluator; every token string up to length 4-5 must return ok or InvalidQuery (totality); nesting depths up to 10^5-10^6 run in a subprocess each and must return InvalidQuery beyond the limit, never crash.", "Outcome/meaning of ill-formed strings is compared with the transcription only as drift (the property does not fix it). Wildcards and date ranges are not modelled."),
    "C35": _func("Snippet", "compute_snippet_slices is transcribed with exact byte arithmetic over texts of 1-4-byte characters, terminators, newlines and spaces. TLC checks the contract (non-empty, inside the text, on character boundaries, strictly increasing, non-overlapping, at most max) for every text of up to 3-4 characters, occurrence lists (also out of bounds, unordered), windows and maxima including 0. The same and random longer cases (to 90 characters) run on the real function; TLC checks the contract on the real output and that slicing never panics.", "Equality with the transcription's exact slices is reported as drift only; the merge gap (20 bytes) is 1 in the exhaustive model so that multi-slice results are reachable."),
    "C37": _func("Adaptive", "The absolute and relative strategies and min-max normalisation are transcribed over dyadic scores (exact in f32). TLC checks the bounds, threshold and normalisation contracts for every score list of up to 4-5 values (unsorted too), thresholds and min_results. On the real functions: the cut-off must equal the transcription's and satisfy the threshold contract (abs/rel); cliff, elbow and combined strategies must satisfy the bounds contract; normalised scores must be exactly (s-min)/range, in [0,1], maximum at 1.", "Scores are restricted to multiples of 1/8 with a power-of-two range so that f32 arithmetic is exact; NaN/infinite scores and the numeric internals of elbow/cliff are outside what this technique judges."),
    "C02": _disk("Every file-system mutation of every call in the recorded histories (create, put incl. chunked and WAL-growing, update, delete, commit, drop, apply_ticket, vacuum, doctor, open-time recovery) is a crash point: the directory after that prefix of operations is rebuilt offline, the real Memvid::open runs on it, and TLC requires the recovered frame table (ids, URIs, status, payload ids, embeddings, links) to be the table before or the table after the in-flight call, open not to fail, and the ticket to be one of the two."),
    "C03": _disk("At sampled file operations the directory a power loss could leave is rebuilt: un-synced writes of an inode dropped entirely, cut at every prefix, with any single one missing, or with the last one torn at half; un-synced renames lost or kept; the other inodes durable or volatile. The real open runs on each and TLC requires the same two-state rule, which implies that every call that returned (its log record or commit was fsynced) is present.", "Ordering obligations are not stated separately: a missing fsync shows up as a power-loss state that loses an acknowledged call."),
    "C04": _disk("Histories leave pending log records (handle lost), then open: every mutation of that recovery is a crash point (process and power), judged as above with the open as the in-flight call; after every successful recovery the file is closed and opened again and the frame table must not change (second_same)."),
    "C20": _disk("The committed, closed files two histories end with are corrupted: one byte flipped at sampled offsets of every region class (each header field, the log, payload and index data, TOC, footer), each class zeroed entirely / in its first half, and truncation at every class boundary and midpoint. The real open, reads of every frame (canonical payload, blob reader, embedding), timeline, open_read_only and verify(deep) run on each; TLC requires every read to equal the specification's value or to fail, and verify not to report Passed otherwise.", "Sampled (6 offsets per class in the quick tier, 40 in the thorough tier), not every byte. Search results over corrupted index segments are not compared."),
    "C22": _disk("Every reconstructed directory (crash-left, power-loss, torn) is fed to open, a second open, timeline, verify, doctor + verify + doctor + open on a copy, and open_read_only + verify on a copy, each under catch_unwind with a 60 s watchdog; TLC rejects any recording in which one of them panicked or hung.", "Claimed for the specification-generated family of files only (DESIGN 6 C22): unstructured random bytes are not generated by this technique."),
    "C09": _query("Single-word queries for every vocabulary word, with and without the sketch pre-filter, top_k above the number of matches: TLC computes from the specification's frame table the set of committed active documents containing the word and requires every one of them among the hits (live, reopened read-write and read-only, after doctor)."),
    "C10": _query("For every hit of every query (single words, boolean expressions printed from random ASTs with NOT/AND/OR/implicit AND/parentheses, tag terms, uri filter): the frame exists and is active in the specification's table, the document's atoms satisfy the query under the model-checked QueryLang semantics, ranks are 1..n, n <= top_k, the hit text equals the frame text at the hit range, the range is non-empty and inside the chunk range."),
    "C11": _query("Queries with as_of_frame / as_of_ts (with and without sketch): every hit has id <= n / timestamp <= t in the specification's table and is among the hits of the same query without cut-off (issued in the same call with top_k 1000); the ask path is checked for as_of_frame too."),
    "C12": _query("Documents carry ACL metadata of every shape (public / restricted with roles, groups, principals; quoted and padded values; missing, no tenant, unknown visibility, malformed list); queries carry caller contexts in enforce and audit mode through search, vector-with-text, adaptive and ask: in enforce mode every returned frame must be allowed by the transcribed policy, enforce without tenant must be an error, audit with a context must return exactly the hits of the same query without context."),
    "C13": _query("search_vec with integer query vectors: result length min(k, m), reported squared distances equal the exact ones computed by TLC from the embedding ids, non-decreasing, no duplicates, no omitted active embedded frame strictly closer than the last hit; a query of another dimension must fail with VecDimensionMismatch; identical distance sequences after reopen (rw, ro) and doctor rebuild.", "Brute-force index only (default features); extreme float values are outside what this technique judges."),
    "C16": _query("Paged requests (page sizes 1..25, corpora with 48-90 matches so that the engine's candidate limit matters) are followed to the end: the concatenated pages must equal the one-request sequence (frame, range) and total_hits must be the same on every page.", "The total_hits inconsistency of the pinned tree is recorded as a known finding."),
    "C28": _query("The same battery (same query ids) is issued on the live handle after the commit, after reopen read-write, after reopen read-only and after a doctor rebuild of all indexes: for an unchanged frame table the hit sets (distance sequences for vector search) must be equal; searches issued between put and commit must satisfy the soundness contract on the table including the pending window."),
    "C40": _query("Corpora are ingested through plain puts + commit, through begin_batch(options: skip_sync, disable_auto_checkpoint, compression level, WAL pre-size)/end_batch + commit, and through several commit_skip_indexes followed by finalize_indexes (with and without a final commit). The bulk calls are actions of Mv2Core with the same effect on the frame table as plain puts; every observation of those memories - frame table, payload ids, embeddings, timeline, vector probes, single-word recall, boolean-query soundness, exact k-NN, live and after reopen, verify - must satisfy the same contracts as for plain ingestion; any failure in a bulk history is attributed to this property."),
    "C23": {
        "engine": "det",
        "technique": "self-composition: each history executed twice (separate processes, fresh paths); the paired recording is validated by TLC against the TLA+ specification Mv2Core with the twin-equality condition at every call",
        "text": "Every history (seeded random put/update/delete/commit/reopen/vacuum/doctor/ticket sequences and a query corpus with its battery) is executed twice; TLC validates the first execution against Mv2Core and, at every call, requires the second execution's result and full logical observation (frame table with payload ids, embeddings, links, descriptive fields, log numbers, ticket, stats, query hits) to be identical; file digests after every call are compared too.",
        "note": "Byte identity fails on the pinned tree (known finding F23-bytes-differ); logical identity is what the check enforces. Trusts TLC and the harness projection.",
        "design_ref": "DESIGN.md §6 C23",
    },
    "C41": {
        "engine": "worker",
        "technique": "TLA+ specification of worker and foreground critical sections (EnrichWorker) model-checked by TLC including liveness under weak fairness; real worker runs recorded at linearisation points (hook events under the mutex) and validated by TLC against the specification",
        "text": "TLC explores every interleaving of the worker's critical sections (get task, process, complete, checkpoint, exit) with foreground puts, commits, searches, deletes and the stop request for up to 3-4 puts, checking that no frame is lost, only queued frames change state, each at most once, a drained queue leaves every active queued frame Enriched, and that the worker stops when asked (weak fairness). The real start_enrichment_worker then runs under seeded schedule perturbation; every critical section of both threads is recorded under the Mutex<Memvid> with the queue and every frame's status / enrichment state, and TLC must find a model action for each event, with the invariants evaluated on every observed state.",
        "note": "Trusts TLC and the hook placement (events inside the closures of start_enrichment_worker, yield points between them). Schedule perturbation samples interleavings; exhaustiveness comes from the model only. The embedding-generating worker variant is not exercised.",
        "design_ref": "DESIGN.md §4.6, §6 C41",
    },
    "C05": {
        "engine": "walring",
        "technique": "TLA+ cell-level model (WalRing) exhaustively checked by TLC + refinement to WalAbs; every TLC transition replayed on the real EmbeddedWal; recorded real runs validated against WalAbs by TLC",
        "text": "TLC explores every call sequence of the embedded log for region sizes 6..12 cells (all payload lengths) and checks that a scan returns exactly the records appended since the last checkpoint; every transition of that state graph is executed on the real EmbeddedWal (16 bytes per cell) and the result, returned sequence, pending records and stats must equal the model's; seeded random runs on 96..65536-byte regions are validated against the cursor-level model. This is the right level because the property quantifies over all call sequences and sizes, and the failure modes are arithmetic corner cases that exhaustive small-scope search finds (it found three).",
        "note": "Trusts TLC, the 3-cell header abstraction (scanned positions always hold whole records/sentinels), the x16 linear scaling argument, and tmpfs file semantics. Crash-interrupted appends are the disk engine's subject (C02/C03), not this check's.",
        "design_ref": "DESIGN.md §4.1, §6 C05",
    },
}
