SETUP = "bin/setup"
NOTES = ("All checks are model-based: an explicit TLA+ specification under spec/ checked with TLC, bound to the real crate by "
         "replaying TLC-generated behaviours on it and by validating recorded executions against the specification. See DESIGN.md.")
HOOKS = {
    "guard": "memvid_verif",
    "enable": "the harness crates pass --cfg memvid_verif through harness/.cargo/config.toml rustflags (with --check-cfg)",
    "baseline_off_cmd": "cd /repo && cargo nextest run --workspace --no-fail-fast --test-threads 8 --offline || cargo test --workspace --no-fail-fast --offline",
    "source_commits": [],
    "add_only": True,
}
ENGINES = [
    {"name": "walring", "path": "lib/eng_walring.py", "serves_properties": ["C05"],
     "kind_free_text": "WalRing/WalAbs TLA+ models; transition tour of the TLC state graph replayed on the real EmbeddedWal; random real runs validated by TLC"},
]
NOT_YET = "check not built yet in this revision of the machinery (see DESIGN.md §12 for the build order)"
NOT_APPLICABLE = {
    "C30": "pure encode/decode fidelity of byte layouts (bincode TOC, header, footer, time index): a TLA+ model would have to re-implement the codecs; outside what state-machine specification decides (DESIGN.md §7)",
    "C33": "Unicode normalisation / grapheme segmentation are table look-ups with no state to specify (DESIGN.md §7)",
    "C34": "text chunk planning: a pure string function whose contract needs string concatenation over normalised Unicode text (DESIGN.md §7)",
    "C36": "regular-expression rewriting idempotence; no state machine (DESIGN.md §7)",
    "C38": "floating-point accuracy of SIMD distance; numeric, not behavioural (DESIGN.md §7)",
    "C39": "hash/bit-level filter and codec round-trip (DESIGN.md §7)",
}
CLAIMED = {
    "C05": {
        "engine": "walring",
        "technique": "TLA+ cell-level model (WalRing) exhaustively checked by TLC + refinement to WalAbs; every TLC transition replayed on the real EmbeddedWal; recorded real runs validated against WalAbs by TLC",
        "text": "TLC explores every call sequence of the embedded log for region sizes 6..12 cells (all payload lengths) and checks that a scan returns exactly the records appended since the last checkpoint; every transition of that state graph is executed on the real EmbeddedWal (16 bytes per cell) and the result, returned sequence, pending records and stats must equal the model's; seeded random runs on 96..65536-byte regions are validated against the cursor-level model. This is the right level because the property quantifies over all call sequences and sizes, and the failure modes are arithmetic corner cases that exhaustive small-scope search finds (it found three).",
        "note": "Trusts TLC, the 3-cell header abstraction (scanned positions always hold whole records/sentinels), the x16 linear scaling argument, and tmpfs file semantics. Crash-interrupted appends are the disk engine's subject (C02/C03), not this check's.",
        "design_ref": "DESIGN.md §4.1, §6 C05",
    },
}
