#!/usr/bin/env python3
"""Prints the prompt given to an independent sub-agent that seeds a property-breaking change (see DESIGN §13)."""
import json, sys
pid = sys.argv[1]
wt = sys.argv[2]
p = [json.loads(l) for l in open('/verif/properties.jsonl') if json.loads(l)['id'] == pid][0]
a = p['anchors']
print(f"""You are helping test a verification effort by producing a realistic *bug-introducing change* to a Rust crate.
You work ONLY inside the git worktree {wt} (a checkout of the memvid-core crate: a single-file `.mv2` AI memory store with an embedded WAL, TOC/footer commits, crash recovery, doctor repair, lexical/vector/time indexes). Never touch /repo or /verif, never read anything under /verif. There is no network: always pass --offline to cargo, and set CARGO_TARGET_DIR={wt}/target.

The property that must be BROKEN by your change:

  id: {p['id']}
  title: {p['title']}
  statement: {p['statement']}
  quantified over: {p['quantifier']['text']}
  relevant files: {', '.join(a.get('files', []))}
  mechanisms: {'; '.join(m['name'] + ' @ ' + m['where'] for m in a.get('mechanism', []))}

Task: produce TWO different, independent source changes (call them A and B; different mechanisms / code sites) to the crate under {wt}/src such that each one:
  1. still compiles (default features) and the crate's existing test suite still passes, unedited:  cd {wt} && CARGO_TARGET_DIR={wt}/target cargo test --workspace --no-fail-fast --offline   (takes several minutes the first time; a handful of tests may be flaky/ignored on the unchanged tree too - compare against the unchanged tree if in doubt);
  2. violates the property above for some input / history / crash point / schedule;
  3. is REALISTIC and SUBTLE: the kind of regression a maintainer could introduce in a refactor or "optimisation" (an off-by-one, a wrong comparison, a dropped fsync, a forgotten field, a stale cache, a misplaced early return, ...). It must need something specific to manifest - a particular multi-step sequence of operations, a boundary size, a crash or fault at a particular point, an unusual input, a particular interleaving, or two cooperating sites that each look fine alone. NOT something that ordinary use (put a document, commit, search) would expose at once.
  4. comes with a demonstration: a self-contained Rust integration test file (put it at {wt}/tests/seed_{pid.lower()}_a.rs and ..._b.rs, using only the crate's public API and dev-dependencies already available, e.g. tempfile) that FAILS with the change applied and PASSES on the unchanged tree. Run it both ways and confirm this yourself.

Deliverables (write them under {wt}/seed_out/):
  A.diff and B.diff  - `git diff -- src` of each change alone (relative to the unchanged tree; each diff must apply alone with `git apply`). Do not include the demonstration test or target/ in the diff.
  seed_{pid.lower()}_a.rs / seed_{pid.lower()}_b.rs - copies of the demonstration tests.
  NOTES.md - for each change: what it does, why it breaks the property, exactly what is needed for it to manifest, the commands you ran and their outcome (test suite result with the change; demo failing with / passing without).
Leave the worktree's src/ in the UNCHANGED state when you finish (git checkout -- src), keeping only seed_out/ and the tests/seed_* files. Do not commit anything. Be economical: builds are slow (3-5 min cold), so plan both changes before building, and run the full test suite once per change.
In your final answer give a 5-line summary per change.""")
