"""Shared machinery for /verif/bin/check: harness build, TLC runner, trace
validation, known-finding matching, evidence writing.

Exit codes of a check: 0 = property held on everything explored (possibly with
KNOWN-FINDING lines), 1 = violation (a `VIOLATION property=<id> replay=<path>`
line was printed), 2 = tool error / broken tool chain.
"""
import hashlib
import json
import os
import re
import shutil
import subprocess
import sys
import time

VERIF = os.path.dirname(os.path.dirname(os.path.abspath(__file__)))
SPEC = os.path.join(VERIF, "spec")
WORK = os.path.join(VERIF, "work")
HARNESS = os.path.join(VERIF, "harness")
EVIDENCE = os.path.join(VERIF, "evidence")
REPLAYS = os.path.join(VERIF, "replays")
REPO = os.environ.get("VERIF_REPO", "/repo")
TLA_JAR = "/opt/veriftools/tla/tla2tools.jar"


class ToolError(Exception):
    pass


def seed():
    try:
        return int(os.environ.get("VERIF_SEED", "1"))
    except ValueError:
        return 1


def log(*a):
    print(*a, file=sys.stderr, flush=True)


def ensure_dirs():
    for d in (WORK, EVIDENCE, REPLAYS):
        os.makedirs(d, exist_ok=True)


def workdir(tag):
    d = os.path.join(WORK, "%s-%d" % (tag, os.getpid()))
    shutil.rmtree(d, ignore_errors=True)
    os.makedirs(d)
    return d


# --------------------------------------------------------------------------
# harness build (always rebuilt from /repo's current working tree; cargo's
# fingerprints decide what is recompiled)
# --------------------------------------------------------------------------
_built = {}


def build_harness(feat=False):
    d = os.path.join(VERIF, "harness-feat" if feat else "harness")
    if d in _built:
        return _built[d]
    lock = os.path.join(WORK, "build.lock")
    ensure_dirs()
    import fcntl
    with open(lock, "w") as lf:
        fcntl.flock(lf, fcntl.LOCK_EX)
        env = dict(os.environ, CARGO_NET_OFFLINE="true")
        t0 = time.time()
        p = subprocess.run(["cargo", "build", "--release", "--offline"], cwd=d, env=env,
                           stdout=subprocess.PIPE, stderr=subprocess.STDOUT, text=True)
        if p.returncode != 0:
            log(p.stdout[-4000:])
            raise ToolError("harness build failed (does /repo still compile?)")
        log("[build] %s ok in %.0fs" % (os.path.basename(d), time.time() - t0))
    b = os.path.join(d, "target", "release", "mvh")
    _built[d] = b
    return b


def run_harness(args, feat=False, timeout=3600, env=None, stdin=None):
    b = build_harness(feat)
    e = dict(os.environ)
    e.setdefault("MVH_TMP", "/dev/shm" if os.path.isdir("/dev/shm") else "/tmp")
    e["RUST_BACKTRACE"] = "0"
    if env:
        e.update(env)
    try:
        p = subprocess.run([b] + [str(a) for a in args], env=e, timeout=timeout, input=stdin,
                           stdout=subprocess.PIPE, stderr=subprocess.PIPE, text=True)
    except subprocess.TimeoutExpired:
        raise ToolError("harness timed out: %s" % " ".join(map(str, args)))
    return p


# --------------------------------------------------------------------------
# TLC
# --------------------------------------------------------------------------
class TlcResult:
    def __init__(self):
        self.ok = False
        self.generated = 0
        self.distinct = 0
        self.depth = 0
        self.violated = None
        self.output = ""
        self.coverage = {}
        self.wall = 0.0
        self.timed_out = False


def run_tlc(module, cfg_text, tag, workers=4, timeout=600, coverage=False, extra_args=(),
            java_opts="", env=None, simulate=None, depth_first=False, spec_dir=None):
    """Runs TLC on spec/<module>.tla with the given cfg text."""
    ensure_dirs()
    d = workdir("tlc-" + tag)
    sd = spec_dir or SPEC
    for f in os.listdir(sd):
        if f.endswith(".tla"):
            shutil.copy(os.path.join(sd, f), d)
    with open(os.path.join(d, module + ".cfg"), "w") as f:
        f.write(cfg_text)
    jopts = "-Xss1g " + java_opts
    if depth_first:
        jopts += " -Dtlc2.tool.queue.IStateQueue=StateDeque"
    e = dict(os.environ)
    e["JAVA_TOOL_OPTIONS"] = jopts.strip()
    if env:
        e.update(env)
    cmd = ["timeout", str(int(timeout)), "java", "-XX:+UseParallelGC", "-cp", TLA_JAR + ":/opt/veriftools/tla/CommunityModules-deps.jar",
           "tlc2.TLC"]
    # use the wrapper if present: it knows the CommunityModules classpath
    if shutil.which("tlc"):
        cmd = ["timeout", str(int(timeout)), "tlc"]
    cmd += ["-workers", str(workers), "-metadir", os.path.join(d, "meta"), "-cleanup", "-noGenerateSpecTE"]
    if coverage:
        cmd += ["-coverage", "1"]
    if simulate:
        cmd += ["-simulate", simulate]
    cmd += list(extra_args)
    cmd += ["-config", module + ".cfg", module + ".tla"]
    t0 = time.time()
    p = subprocess.run(cmd, cwd=d, env=e, stdout=subprocess.PIPE, stderr=subprocess.STDOUT, text=True)
    r = TlcResult()
    r.wall = time.time() - t0
    r.output = p.stdout
    r.dir = d
    r.timed_out = p.returncode == 124
    m = re.search(r"(\d+) states generated, (\d+) distinct states found", p.stdout)
    if m:
        r.generated, r.distinct = int(m.group(1)), int(m.group(2))
    else:
        ms = re.findall(r"(\d+) states generated", p.stdout)
        if ms:
            r.generated = int(ms[-1])
    m = re.search(r"depth of the complete state graph search is (\d+)", p.stdout)
    if m:
        r.depth = int(m.group(1))
    m = re.search(r"Error: (Invariant (\S+) is violated|Action property (.*?) is violated|Temporal properties were violated|Deadlock reached)", p.stdout)
    if m:
        r.violated = m.group(2) or m.group(3) or m.group(1)
    r.ok = ("Model checking completed. No error has been found." in p.stdout) or (simulate and p.returncode in (0, 124) and not r.violated and "Error:" not in p.stdout)
    if coverage:
        for am in re.finditer(r"<(\w+) line (\d+), col \d+ to line \d+, col \d+ of module (\w+)>: (\d+):(\d+)", p.stdout):
            r.coverage[am.group(1)] = r.coverage.get(am.group(1), 0) + int(am.group(5))
    if not r.ok and not r.violated and not r.timed_out:
        # parse / semantic / evaluation error
        r.error = True
    else:
        r.error = False
    return r


def tla_edges(output, tagname="EDGE"):
    """Extracts the JSON documents printed by PrintT(<<"TAG", ToJson(..)>>)."""
    out = []
    pat = '<<"%s", "' % tagname
    for line in output.splitlines():
        if line.startswith(pat) and line.endswith('">>'):
            body = line[len(pat):-3]
            body = body.replace('\\"', '"').replace('\\\\', '\\')
            try:
                out.append(json.loads(body))
            except ValueError:
                pass
    return out


def validate_trace(trace_module, cfg_text, ndjson_path, tag, timeout=900, extra_env=None, heap="4g"):
    """impl -> spec: TLC reads the ND-JSON trace (env TRACE) and must consume
    every line.  Returns (accepted, matched_prefix_len, total, tlc_result)."""
    env = {"TRACE": ndjson_path}
    if extra_env:
        env.update(extra_env)
    r = run_tlc(trace_module, cfg_text, tag, workers=1, timeout=timeout, depth_first=True,
                java_opts="-Xmx" + heap, env=env)
    total = sum(1 for _ in open(ndjson_path))
    m = re.search(r'"TRACE-RESULT", (\d+), (\d+)', r.output)
    matched = int(m.group(1)) if m else -1
    accepted = r.ok and matched == total and "TRACE-ACCEPTED" in r.output
    return accepted, matched, total, r


# --------------------------------------------------------------------------
# known findings
# --------------------------------------------------------------------------
def load_known():
    p = os.path.join(VERIF, "known_findings.json")
    if not os.path.exists(p):
        return []
    with open(p) as f:
        return json.load(f).get("findings", [])


def sig_matches(entry_match, sig):
    for k, v in entry_match.items():
        if k not in sig:
            return False
        if isinstance(v, list):
            if sig[k] not in v:
                return False
        elif isinstance(v, dict) and ("min" in v or "max" in v):
            try:
                x = sig[k]
                if "min" in v and x < v["min"]:
                    return False
                if "max" in v and x > v["max"]:
                    return False
            except TypeError:
                return False
        elif sig[k] != v:
            return False
    return True


class Outcome:
    """Collects divergences of one check run and turns them into the
    KNOWN-FINDING / VIOLATION protocol."""

    def __init__(self, prop, tier):
        self.prop = prop
        self.tier = tier
        self.t0 = time.time()
        self.divergences = []  # dicts: signature, detail, replay (payload)
        self.notes = []

    def diverge(self, signature, detail, replay):
        self.divergences.append({"signature": signature, "detail": detail, "replay": replay})

    def finish(self, level, coverage, assumptions):
        ensure_dirs()
        known = [k for k in load_known() if k.get("property") == self.prop and k.get("status") == "open"]
        used = {}
        violations = []
        for dv in self.divergences:
            hit = None
            for k in known:
                if sig_matches(k.get("match", {}), dv["signature"]):
                    hit = k
                    break
            if hit is not None:
                used.setdefault(hit["id"], [hit, 0])[1] += 1
            else:
                violations.append(dv)
        for kid, (k, n) in sorted(used.items()):
            print("KNOWN-FINDING: property=%s %s [%s; %d occurrence(s) this run]" % (self.prop, k["what_fails"], kid, n), flush=True)
        seen = set()
        nviol = 0
        for dv in violations:
            key = json.dumps(dv["signature"], sort_keys=True)
            if key in seen:
                continue
            seen.add(key)
            nviol += 1
            if nviol > 5:
                continue
            h = hashlib.sha1((key + json.dumps(dv["replay"], sort_keys=True, default=str)).encode()).hexdigest()[:10]
            path = os.path.join(REPLAYS, "%s-%s.json" % (self.prop, h))
            with open(path, "w") as f:
                json.dump({"property": self.prop, "tier": self.tier, "seed": seed(), "signature": dv["signature"],
                           "detail": dv["detail"], "replay": dv["replay"]}, f, indent=1, default=str)
            print("VIOLATION property=%s replay=%s" % (self.prop, path), flush=True)
            print("  what: %s" % (dv["detail"],), flush=True)
        cov = dict(coverage)
        cov["known_findings_seen"] = sorted(used.keys())
        ev = {
            "property_id": self.prop,
            "tier": self.tier,
            "seed": seed(),
            "level": level,
            "coverage": cov,
            "assumptions": assumptions,
            "wall_s": round(time.time() - self.t0, 2),
            "violations": nviol,
        }
        with open(os.path.join(EVIDENCE, "%s.json" % self.prop), "w") as f:
            json.dump(ev, f, indent=1, default=str)
        return 1 if nviol else 0


def sample(xs, n=3):
    xs = list(xs)
    if len(xs) <= n:
        return xs
    step = max(1, len(xs) // n)
    return [xs[i] for i in range(0, len(xs), step)][:n]


def cfg(constants, spec="Spec", invariants=(), properties=(), constraint=None, view=None,
        action_constraint=None, postcondition=None, init_next=None):
    lines = []
    if init_next:
        lines += ["INIT %s" % init_next[0], "NEXT %s" % init_next[1]]
    else:
        lines.append("SPECIFICATION %s" % spec)
    if constants:
        lines.append("CONSTANTS")
        for k, v in constants.items():
            lines.append("  %s <- %s" % (k, v[3:]) if isinstance(v, str) and v.startswith("<- ") else "  %s = %s" % (k, v))
    if invariants:
        lines.append("INVARIANTS " + " ".join(invariants))
    if properties:
        lines.append("PROPERTIES " + " ".join(properties))
    if constraint:
        lines.append("CONSTRAINT " + constraint)
    if action_constraint:
        lines.append("ACTION_CONSTRAINT " + action_constraint)
    if view:
        lines.append("VIEW " + view)
    if postcondition:
        lines.append("POSTCONDITION " + postcondition)
    lines.append("CHECK_DEADLOCK FALSE")
    return "\n".join(lines) + "\n"


def tla_set(xs):
    def one(x):
        if isinstance(x, str):
            return '"%s"' % x
        return str(x)
    return "{" + ",".join(one(x) for x in xs) + "}"


import collections


def tour(edges, maxlen=40):
    """Transition tour: a set of paths from the initial state that together cover every
    distinct (state, op, arg, result-state) edge.  Each path repeatedly walks (BFS) to the nearest
    uncovered edge; a path ends when the next walk would exceed maxlen (a single walk is never cut)."""
    uniq = {}
    for e in edges:
        uniq.setdefault((e["s"], e["op"], e["arg"], e["t"]), e)
    out = collections.defaultdict(list)
    for k, e in uniq.items():
        out[e["s"]].append((k, e))
    targets = set(e["t"] for e in uniq.values() if e["t"] != e["s"])
    cands = [e["s"] for e in edges if e["s"] not in targets]
    init = cands[0] if cands else edges[0]["s"]
    uncovered = set(uniq.keys())
    paths = []

    def walk(cur):
        prev = {cur: None}
        q = collections.deque([cur])
        while q:
            s = q.popleft()
            for k, x in out[s]:
                if k in uncovered:
                    chain = [(k, x)]
                    while prev[s] is not None:
                        s, kx = prev[s]
                        chain.append(kx)
                    chain.reverse()
                    return chain
            for k, x in out[s]:
                if x["t"] not in prev:
                    prev[x["t"]] = (s, (k, x))
                    q.append(x["t"])
        return None

    while uncovered:
        path = []
        cur = init
        while True:
            chain = walk(cur)
            if chain is None:
                break
            if path and len(path) + len(chain) > maxlen:
                break
            for k, x in chain:
                path.append(x)
                uncovered.discard(k)
            cur = chain[-1][1]["t"]
        if not path:
            break
        paths.append(path)
    return paths, len(uniq)
