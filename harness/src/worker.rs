//! `worker` engine executor (C41): the REAL background enrichment worker (memvid_core::start_enrichment_worker) runs
//! on an Arc<Mutex<Memvid>> next to a foreground thread that puts (instant index => enrichment queue), commits,
//! searches and deletes.  Every critical section of the worker (hook events emitted inside
//! start_enrichment_worker's closures, under the mutex) and every foreground call (emitted here, under the same
//! mutex) is recorded with a snapshot of the state the worker touches; a global sequence number taken under the
//! tracer's own lock orders them.  Seeded sleeps at the worker's yield points and between foreground calls vary
//! the interleaving.  TLC validates each recorded schedule against EnrichWorker (Trace_EnrichWorker).
use crate::util::{Rng, scratch_dir};
use memvid_core::types::PutOptions;
use memvid_core::{EnrichmentWorkerConfig, Memvid, start_enrichment_worker};
use serde_json::{Value, json};
use std::io::Write;
use std::sync::{Arc, Mutex};

type Log = Arc<Mutex<Vec<Value>>>;

fn emit(log: &Log, who: &str, name: &str, id: u64, detail: &str) {
    let mut g = log.lock().unwrap_or_else(std::sync::PoisonError::into_inner);
    let snap: Value = serde_json::from_str(detail).unwrap_or(json!({}));
    let n = g.len() + 1;
    g.push(json!({"ev": name, "who": who, "n": n, "id": if id == u64::MAX { -1 } else { id as i64 }, "obs": snap}));
}

/// args: <schedules.json> <out.ndjson>
pub fn run(args: &[String]) -> i32 {
    let input: Value = serde_json::from_str(&std::fs::read_to_string(&args[0]).expect("read")).expect("json");
    let mut out = std::io::BufWriter::new(std::fs::File::create(&args[1]).expect("create"));
    std::panic::set_hook(Box::new(|_| {}));
    for sc in input["schedules"].as_array().expect("schedules") {
        let seed = sc["seed"].as_u64().unwrap_or(1);
        let dir = scratch_dir("worker");
        let path = dir.path().join("m.mv2");
        let mem = Memvid::create(&path).expect("create");
        let shared = Arc::new(Mutex::new(mem));
        let log: Log = Arc::new(Mutex::new(Vec::new()));
        {
            let l = log.clone();
            memvid_core::verif::set_tracer(Some(Box::new(move |name, id, detail| emit(&l, "w", name, id, detail))));
            let rng = Mutex::new(Rng::new(seed ^ 0xABCD));
            let max_us = sc["worker_jitter_us"].as_u64().unwrap_or(3000);
            memvid_core::verif::set_yielder(Some(Box::new(move |_pt| {
                let us = rng.lock().map(|mut r| r.below(max_us + 1)).unwrap_or(0);
                std::thread::sleep(std::time::Duration::from_micros(us));
            })));
        }
        let cfg = EnrichmentWorkerConfig { embedding_batch_size: 4, checkpoint_interval: sc["checkpoint_interval"].as_u64().unwrap_or(2) as usize,
                                           task_delay_ms: 1, max_task_time_ms: 1000 };
        let handle = start_enrichment_worker(Arc::clone(&shared), Some(cfg));
        let mut rng = Rng::new(seed);
        let fg_jitter = sc["fg_jitter_us"].as_u64().unwrap_or(3000);
        let mut nput = 0u64;
        for op in sc["ops"].as_array().cloned().unwrap_or_default() {
            std::thread::sleep(std::time::Duration::from_micros(rng.below(fg_jitter + 1)));
            let name = op["op"].as_str().unwrap_or("");
            let mut g = shared.lock().unwrap_or_else(std::sync::PoisonError::into_inner);
            let (id, res): (u64, String) = match name {
                "put" => {
                    nput += 1;
                    let mut o = PutOptions::default();
                    o.uri = Some(format!("mv2://w{nput}"));
                    o.timestamp = Some(nput as i64);
                    o.extraction_budget_ms = 0;
                    o.instant_index = op["instant"].as_bool().unwrap_or(true);
                    o.enable_embedding = op["queue"].as_bool().unwrap_or(true);
                    o.extract_triplets = false;
                    let predicted = g.next_frame_id();
                    let body = format!("worker document number {nput} alpha bravo");
                    let r = g.put_bytes_with_options(body.as_bytes(), o);
                    (predicted, if r.is_ok() { "ok".into() } else { format!("{:?}", r.err()) })
                }
                "commit" => {
                    let r = g.commit();
                    (0, if r.is_ok() { "ok".into() } else { format!("{:?}", r.err()) })
                }
                "search" => {
                    let r = g.search(memvid_core::types::SearchRequest {
                        query: "alpha".into(), top_k: 50, snippet_chars: 80, uri: None, scope: None, cursor: None, as_of_frame: None, as_of_ts: None,
                        no_sketch: true, acl_context: None, acl_enforcement_mode: memvid_core::types::AclEnforcementMode::Audit,
                    });
                    (r.as_ref().map(|x| x.hits.len() as u64).unwrap_or(0), if r.is_ok() { "ok".into() } else { "err".into() })
                }
                "delete" => {
                    let f = op["frame"].as_u64().unwrap_or(0);
                    let r = g.delete_frame(f);
                    (f, if r.is_ok() { "ok".into() } else { "err".into() })
                }
                _ => (0, "skip".into()),
            };
            let snap = memvid_core::verif::snapshot_with(&g, Some(&res));
            emit(&log, "fg", &format!("fg_{name}"), id, &snap);
            drop(g);
        }
        // let the worker drain what it can, then stop it
        let drain_ms = sc["drain_ms"].as_u64().unwrap_or(150);
        std::thread::sleep(std::time::Duration::from_millis(drain_ms));
        let t0 = std::time::Instant::now();
        {
            // the stop request is recorded and made while the mutex is held, so that no critical section of the
            // worker can fall between the event and the flag
            let g = shared.lock().unwrap_or_else(std::sync::PoisonError::into_inner);
            emit(&log, "fg", "fg_stop", 0, &memvid_core::verif::snapshot(&g));
            handle.stop();
        }
        let stats = handle.stop_and_wait();
        let stop_ms = t0.elapsed().as_millis() as u64;
        memvid_core::verif::set_tracer(None);
        memvid_core::verif::set_yielder(None);
        {
            let g = shared.lock().unwrap_or_else(std::sync::PoisonError::into_inner);
            let mut snap: Value = serde_json::from_str(&memvid_core::verif::snapshot(&g)).unwrap_or(json!({}));
            snap["stats"] = json!({"processed": stats.frames_processed, "errors": stats.errors, "running": stats.is_running, "stop_ms": stop_ms});
            emit(&log, "fg", "final", 0, &snap.to_string());
        }
        let evs = log.lock().unwrap_or_else(std::sync::PoisonError::into_inner).clone();
        writeln!(out, "{}", json!({"ev": "reset", "run": sc["id"], "n": 0})).unwrap();
        for e in evs {
            writeln!(out, "{e}").unwrap();
        }
    }
    out.flush().unwrap();
    0
}
