//! `core` engine executor: runs scenarios (lists of abstract API calls produced by
//! TLC or by the seeded drivers in lib/) on the real `Memvid`, and records one
//! ND-JSON event per call with the call's result and the projected abstract
//! state.  No oracle here: only projection, payload-id look-ups and digests.
use crate::util::scratch_dir;
#[allow(deprecated)]
use memvid_core::types::{
    DoctorOptions, Frame, FrameRole, FrameStatus, PutOptions, Ticket, TimelineQuery,
};
use memvid_core::{Memvid, MemvidError};
use serde_json::{Value, json};
use std::collections::HashMap;
use std::io::{Read, Write};
use std::num::NonZeroU64;
use std::panic::{AssertUnwindSafe, catch_unwind};
use std::path::{Path, PathBuf};

// 8..11: two pairs of inflected forms with a common stem and no substring relation (C10: the analysed form of a document may
// match a query whose literal term the text does not contain)
const VOCAB: [&str; 12] = ["alpha", "bravo", "carbon", "delta", "ember", "fjord", "gamma", "harbor", "connected", "connection", "walked", "walking"];

/// Concrete bytes of abstract payload `id` of class `cls`:
///  bin   non-UTF-8 bytes (stored plain)
///  zero  zero bytes (stored plain, compressible)
///  text  short UTF-8 text (zstd), contains the words in `words`
///  long  UTF-8 text above the chunking threshold (parent + chunk frames)
pub fn payload_bytes(id: u64, cls: &str, size: usize, words: &[String]) -> Vec<u8> {
    match cls {
        "bin" => {
            let mut v = vec![0xFFu8, 0xFE, (id & 0xFF) as u8, ((id >> 8) & 0xFF) as u8];
            let mut x = id.wrapping_mul(0x9E37_79B9_7F4A_7C15) | 1;
            while v.len() < size.max(4) {
                x ^= x << 13;
                x ^= x >> 7;
                x ^= x << 17;
                v.push((x & 0xFF) as u8 | 0x80);
            }
            v.truncate(size.max(4));
            v
        }
        "rep" => vec![b'a'; size.max(1)],                 // UTF-8, maximally compressible
        "zeros" => vec![0u8; size.max(1)],                // valid UTF-8 (NUL characters)
        "prose" => {
            let base = "The quick brown fox jumps over the lazy dog while the memory store keeps every frame it was given, exactly as written. ";
            base.repeat(size / base.len() + 1).into_bytes()[..size.max(1)].to_vec()
        }
        "zero" => {
            // always carries the id so that distinct payload ids are distinct bytes
            let mut v = vec![0u8; size.max(10)];
            v[0] = 0xFF;
            v[1..9].copy_from_slice(&id.to_le_bytes());
            v
        }
        _ => {
            // text / long: deterministic prose.  Sentences so that the chunker has
            // boundaries; unique token "doc<id>" first.
            // "textc": the words are separated by commas, so no two of them form a phrase (C10)
            let mut s = format!("doc{id}");
            for (i, w) in words.iter().enumerate() {
                s.push_str(if cls == "textc" && i > 0 { ", " } else { " " });
                s.push_str(w);
            }
            s.push('.');
            let mut k = 0u64;
            while s.len() < size {
                s.push(' ');
                s.push_str(&format!("filler{}x{} item{}", id, k, (id * 7 + k) % 97));
                if k % 9 == 8 {
                    s.push('.');
                }
                if k % 40 == 39 {
                    s.push_str("\n\n");
                }
                k += 1;
            }
            if cls == "text2" {
                // the words once more at the very end: two occurrences further apart than a snippet window (C10: several
                // snippet slices per document)
                s.push_str(".\n\nSummary:");
                for w in words {
                    s.push(' ');
                    s.push_str(w);
                }
                s.push('.');
            }
            s.into_bytes()
        }
    }
}

pub fn embedding(e: u64, dim: usize) -> Vec<f32> {
    (0..dim).map(|i| ((e * (i as u64 + 1) * 7 + i as u64 * 3 + e * e) % 23) as f32).collect()
}

pub struct Ctx {
    pub dir: tempfile::TempDir,
    pub path: PathBuf,
    pub mem: Option<Memvid>,
    pub ro: bool,
    pub digests: HashMap<[u8; 32], i64>, // canonical payload digest -> payload id
    pub embs: HashMap<Vec<u32>, i64>,    // embedding bits -> id
    pub last_count: usize,
    pub ro_digest: Option<([u8; 32], u64, Option<std::time::SystemTime>)>, // file identity when the read-only handle was opened
    pub batch_level: Option<i32>, // compression level of the open batch (begin_batch .. end_batch)
    pub mesh_names: HashMap<u64, String>, // node id -> "canonical name|kind" of every identity a scenario mentioned
}

pub fn hex(b: &[u8]) -> String {
    b.iter().map(|x| format!("{x:02x}")).collect()
}

/// "prefix-k" -> k; None -> 0; anything else -> -1
fn meta_id(v: Option<&str>, prefix: &str) -> i64 {
    match v {
        None => 0,
        Some(s) => s.strip_prefix(prefix).and_then(|k| k.parse::<i64>().ok()).unwrap_or(-1),
    }
}

fn err_name(e: &MemvidError) -> String {
    let d = format!("{e:?}");
    let name: String = d.chars().take_while(|c| c.is_alphanumeric() || *c == '_').collect();
    name
}

fn status_str(s: FrameStatus) -> &'static str {
    match s {
        FrameStatus::Active => "active",
        FrameStatus::Superseded => "superseded",
        FrameStatus::Deleted => "deleted",
    }
}
fn role_str(r: FrameRole) -> &'static str {
    match r {
        FrameRole::Document => "doc",
        FrameRole::DocumentChunk => "chunk",
        FrameRole::ExtractedImage => "image",
    }
}

impl Ctx {
    pub fn new() -> Ctx {
        let dir = match std::env::var("MVH_FIXED_DIR") {
            // the recorder shim must know the directory before the process starts
            Ok(d) => tempfile::Builder::new().prefix("run-").tempdir_in(d).expect("fixed dir"),
            Err(_) => scratch_dir("core"),
        };
        let path = dir.path().join("m.mv2");
        let mut c = Ctx { dir, path, mem: None, ro: false, digests: HashMap::new(), embs: HashMap::new(), last_count: 0, ro_digest: None, batch_level: None, mesh_names: HashMap::new() };
        c.register_payload(0, b"");
        c
    }

    /// A context over an existing file (crash-left state) with the payload registry of the run that produced it.
    pub fn at(dir: tempfile::TempDir, path: PathBuf, registry: &Value) -> Ctx {
        let mut c = Ctx { dir, path, mem: None, ro: false, digests: HashMap::new(), embs: HashMap::new(), last_count: 0, ro_digest: None, batch_level: None, mesh_names: HashMap::new() };
        if let Some(m) = registry["digests"].as_object() {
            for (k, v) in m {
                let mut d = [0u8; 32];
                for i in 0..32 {
                    d[i] = u8::from_str_radix(&k[2 * i..2 * i + 2], 16).unwrap_or(0);
                }
                c.digests.insert(d, v.as_i64().unwrap_or(-1));
            }
        }
        if let Some(a) = registry["embs"].as_array() {
            for e in a {
                let bits: Vec<u32> = e["bits"].as_array().map(|b| b.iter().map(|x| x.as_u64().unwrap_or(0) as u32).collect()).unwrap_or_default();
                c.embs.insert(bits, e["id"].as_i64().unwrap_or(-1));
            }
        }
        c
    }

    fn register_payload(&mut self, id: i64, bytes: &[u8]) {
        self.digests.insert(*blake3::hash(bytes).as_bytes(), id);
    }
    fn register_emb(&mut self, id: i64, v: &[f32]) {
        self.embs.insert(v.iter().map(|f| f.to_bits()).collect(), id);
    }

    /// Header fields and WAL chain parsed from the file bytes (no memvid code involved
    /// except the public header codec).
    fn file_view(&self) -> Value {
        let mut f = match std::fs::File::open(&self.path) {
            Ok(f) => f,
            Err(_) => return json!({"present": false}),
        };
        let mut hdr = vec![0u8; 4096];
        if f.read_exact(&mut hdr).is_err() {
            return json!({"present": true, "short": true});
        }
        let u64_at = |o: usize| u64::from_le_bytes(hdr[o..o + 8].try_into().unwrap());
        // layout: magic 0..4, version 4..6, reserved, footer_offset 8, wal_offset 16, wal_size 24, ckpt 32, seq 40
        let footer_offset = u64_at(8);
        let wal_offset = u64_at(16);
        let wal_size = u64_at(24);
        let ckpt = u64_at(32);
        let wal_seq = u64_at(40);
        let mut chain = Vec::new();
        let mut region = vec![0u8; wal_size.min(64 << 20) as usize];
        use std::io::Seek;
        let mut ok = f.seek(std::io::SeekFrom::Start(wal_offset)).is_ok();
        ok = ok && f.read_exact(&mut region).is_ok();
        let mut scan_err = false;
        if ok {
            let mut c = 0usize;
            while c + 48 <= region.len() {
                let s = u64::from_le_bytes(region[c..c + 8].try_into().unwrap());
                let l = u32::from_le_bytes(region[c + 8..c + 12].try_into().unwrap()) as usize;
                if s == 0 && l == 0 {
                    break;
                }
                if l == 0 || c + 48 + l > region.len() {
                    scan_err = true;
                    break;
                }
                if blake3::hash(&region[c + 48..c + 48 + l]).as_bytes() != &region[c + 16..c + 48] {
                    scan_err = true;
                    break;
                }
                chain.push(json!([s, l]));
                c += 48 + l;
            }
        }
        let flen = f.metadata().map(|m| m.len()).unwrap_or(0);
        json!({"present": true, "footer_offset": footer_offset, "wal_size": wal_size, "ckpt_pos": ckpt,
               "wal_seq": wal_seq, "chain": chain, "scan_err": scan_err, "file_len": flen})
    }

    fn file_identity(&self) -> Option<([u8; 32], u64, Option<std::time::SystemTime>)> {
        let b = std::fs::read(&self.path).ok()?;
        let md = std::fs::metadata(&self.path).ok()?;
        Some((*blake3::hash(&b).as_bytes(), md.len(), md.modified().ok()))
    }

    fn dir_listing(&self) -> Vec<String> {
        let mut v: Vec<String> = std::fs::read_dir(self.dir.path())
            .map(|rd| rd.filter_map(|e| e.ok()).map(|e| e.file_name().to_string_lossy().to_string()).collect())
            .unwrap_or_default();
        v.sort();
        v
    }

    fn frame_json(&mut self, fr: &Frame, full: bool) -> Value {
        let mut pay: i64 = -2; // not read
        let mut blob_same = true;
        let mut emb: i64 = 0;
        let mut pay_err = String::new();
        if full {
            if let Some(mem) = self.mem.as_mut() {
                pay = match catch_unwind(AssertUnwindSafe(|| mem.frame_canonical_payload(fr.id))) {
                    Ok(Ok(bytes)) => {
                        let d = *blake3::hash(&bytes).as_bytes();
                        // blob reader must stream the same bytes
                        if let Ok(Ok(mut r)) = catch_unwind(AssertUnwindSafe(|| mem.blob_reader(fr.id))) {
                            let mut b2 = Vec::new();
                            if r.read_to_end(&mut b2).is_err() || b2 != bytes {
                                blob_same = false;
                            }
                        } else {
                            blob_same = false;
                        }
                        *self.digests.get(&d).unwrap_or(&-1)
                    }
                    Ok(Err(e)) => {
                        pay_err = format!("{e}").chars().take(120).collect();
                        -3
                    }
                    Err(_) => -4,
                };
                emb = match catch_unwind(AssertUnwindSafe(|| mem.frame_embedding(fr.id))) {
                    Ok(Ok(Some(v))) => {
                        let k: Vec<u32> = v.iter().map(|f| f.to_bits()).collect();
                        *self.embs.get(&k).unwrap_or(&-1)
                    }
                    Ok(Ok(None)) => 0,
                    _ => -3,
                };
            }
        }
        json!({
            "id": fr.id, "uri": fr.uri.clone().unwrap_or_default(), "st": status_str(fr.status), "role": role_str(fr.role),
            "parent": fr.parent_id.map(|x| x as i64).unwrap_or(-1),
            "sup": fr.supersedes.map(|x| x as i64).unwrap_or(-1),
            "supby": fr.superseded_by.map(|x| x as i64).unwrap_or(-1),
            "ts": fr.timestamp, "pay": pay, "blob_same": blob_same, "emb": emb,
            "off": fr.payload_offset, "len": fr.payload_length,
            "ci": fr.chunk_index.map(|x| x as i64).unwrap_or(-1), "cc": fr.chunk_count.map(|x| x as i64).unwrap_or(-1),
            "enr": format!("{:?}", fr.enrichment_state),
            "title": fr.title.clone().unwrap_or_default(), "track": fr.track.clone().unwrap_or_default(),
            "kind": fr.kind.clone().unwrap_or_default(), "tags": fr.tags, "labels": fr.labels,
            "has_search_text": fr.search_text.is_some(),
            "meta": {
                "title": meta_id(fr.title.as_deref(), "title-"), "track": meta_id(fr.track.as_deref(), "track-"),
                "kind": meta_id(fr.kind.as_deref(), "kind-"),
                "tags": if fr.tags.len() == 2 && fr.tags[1] == "common" { meta_id(Some(&fr.tags[0]), "tag-") } else if fr.tags.is_empty() { 0 } else { -1 },
                "labels": if fr.labels.len() == 1 { meta_id(Some(&fr.labels[0]), "label-") } else if fr.labels.is_empty() { 0 } else { -1 },
                "extra": meta_id(fr.extra_metadata.get("verif").map(|s| s.as_str()), "extra-"),
            },
            "pay_err": pay_err,
        })
    }

    /// C07: several blob readers alive at once, drained in small alternating pieces with other frame reads in between,
    /// must each stream exactly their frame's canonical payload.
    fn blob_interleaved_ok(&mut self, frames: &[Frame]) -> bool {
        let Some(mem) = self.mem.as_mut() else { return true };
        let ids: Vec<u64> = frames.iter().filter(|f| f.payload_length > 0 && f.chunk_manifest.is_none()).map(|f| f.id).take(4).collect();
        if ids.len() < 2 {
            return true;
        }
        let r = catch_unwind(AssertUnwindSafe(|| {
            let mut want = Vec::new();
            let mut readers = Vec::new();
            for id in &ids {
                match (mem.frame_canonical_payload(*id), mem.blob_reader(*id)) {
                    (Ok(w), Ok(r)) => {
                        want.push(w);
                        readers.push(r);
                    }
                    _ => return true, // unreadable frames are judged by frame.pay, not here
                }
            }
            let mut got: Vec<Vec<u8>> = vec![Vec::new(); readers.len()];
            let mut done = vec![false; readers.len()];
            let mut round = 0usize;
            while done.iter().any(|d| !d) && round < 100_000 {
                for (k, rd) in readers.iter_mut().enumerate() {
                    if done[k] {
                        continue;
                    }
                    // small pieces; larger ones for multi-megabyte payloads so that the number of rounds stays bounded
                    let mut buf = vec![0u8; 13 + want[k].len() / 4096];
                    match rd.read(&mut buf) {
                        Ok(0) => done[k] = true,
                        Ok(n) => got[k].extend_from_slice(&buf[..n]),
                        Err(_) => return false,
                    }
                    // touch another frame through the handle between two partial reads
                    let _ = mem.frame_canonical_payload(ids[(k + 1) % ids.len()]);
                }
                round += 1;
            }
            got == want
        }));
        r.unwrap_or(false)
    }

    pub fn observe(&mut self, force_full: bool) -> Value {
        let fv = self.file_view();
        let dir = self.dir_listing();
        let mut o = json!({"file": fv, "dir": dir, "open": self.mem.is_some(), "ro": self.ro});
        if self.mem.is_some() && self.ro {
            // C18: bytes, length and mtime of the file are what they were when the read-only handle was opened
            o["ro_unchanged"] = json!(self.ro_digest.is_some() && self.ro_digest == self.file_identity());
        }
        if self.mem.is_some() {
            let (count, nfid) = {
                let m = self.mem.as_ref().unwrap();
                (m.frame_count(), m.next_frame_id())
            };
            let full = force_full || count != self.last_count;
            self.last_count = count;
            o["count"] = json!(count);
            o["nfid"] = json!(nfid);
            o["full"] = json!(full);
            if full {
                let frames: Vec<Frame> = {
                    let m = self.mem.as_ref().unwrap();
                    (0..count as u64).filter_map(|i| m.frame_by_id(i).ok()).collect()
                };
                let mut payload_end = 0u64;
                let mut fj = Vec::new();
                for fr in &frames {
                    payload_end = payload_end.max(fr.payload_offset + fr.payload_length);
                    fj.push(self.frame_json(fr, true));
                }
                o["frames"] = json!(fj);
                o["payload_end"] = json!(payload_end);
                o["blob_interleaved_ok"] = json!(self.blob_interleaved_ok(&frames));
            }
            let m = self.mem.as_ref().unwrap();
            if let Ok(st) = m.stats() {
                o["stats"] = json!({"frame_count": st.frame_count, "active": st.active_frame_count, "cap": st.capacity_bytes,
                    "seq_no": st.seq_no, "payload_bytes": st.payload_bytes, "vector_count": st.vector_count,
                    "has_lex": st.has_lex_index, "has_vec": st.has_vec_index, "has_time": st.has_time_index});
            }
            let t = m.current_ticket();
            o["ticket"] = json!({"seq": t.seq_no, "cap": t.capacity_bytes, "issuer": t.issuer, "verified": t.verified});
            o["bound"] = json!(m.get_memory_binding().map(|b| mem_small(&b.memory_id.to_string())).unwrap_or(0));
        }
        o
    }
}

/// dashboard memory ids of the scenarios: small integers <-> UUIDs
fn mem_uuid(k: i64) -> String {
    format!("00000000-0000-4000-8000-{:012x}", k as u64)
}
fn mem_small(u: &str) -> i64 {
    if u.starts_with("00000000-0000-4000-8000-") { i64::from_str_radix(&u[24..], 16).unwrap_or(-1) } else { -1 }
}
fn ticket_key(seed: u8) -> ed25519_dalek::SigningKey {
    ed25519_dalek::SigningKey::from_bytes(&[seed; 32])
}
pub fn b64(bytes: &[u8]) -> String {
    const T: &[u8; 64] = b"ABCDEFGHIJKLMNOPQRSTUVWXYZabcdefghijklmnopqrstuvwxyz0123456789+/";
    let mut out = String::new();
    for ch in bytes.chunks(3) {
        let n = (ch[0] as u32) << 16 | (*ch.get(1).unwrap_or(&0) as u32) << 8 | *ch.get(2).unwrap_or(&0) as u32;
        out.push(T[(n >> 18) as usize & 63] as char);
        out.push(T[(n >> 12) as usize & 63] as char);
        out.push(if ch.len() > 1 { T[(n >> 6) as usize & 63] as char } else { '=' });
        out.push(if ch.len() > 2 { T[n as usize & 63] as char } else { '=' });
    }
    out
}
/// the crate trusts the test key for signed tickets from here on (hook, cfg memvid_verif)
pub fn trust_test_ticket_key() {
    memvid_core::verif::set_ticket_pubkey(Some(b64(ticket_key(7).verifying_key().as_bytes())));
}

fn res_ok(v: Value) -> Value {
    json!({"ok": true, "val": v})
}
fn res_err(e: &MemvidError) -> Value {
    json!({"ok": false, "err": err_name(e), "msg": format!("{e}").chars().take(160).collect::<String>()})
}
fn res_panic(p: Box<dyn std::any::Any + Send>) -> Value {
    let msg = if let Some(s) = p.downcast_ref::<&str>() {
        (*s).to_string()
    } else if let Some(s) = p.downcast_ref::<String>() {
        s.clone()
    } else {
        "panic".to_string()
    };
    json!({"ok": false, "panic": msg.chars().take(200).collect::<String>()})
}

fn guard<T, F: FnOnce() -> Result<T, MemvidError>>(f: F, conv: impl FnOnce(T) -> Value) -> Value {
    match catch_unwind(AssertUnwindSafe(f)) {
        Ok(Ok(v)) => res_ok(conv(v)),
        Ok(Err(e)) => res_err(&e),
        Err(p) => res_panic(p),
    }
}

fn put_options(op: &Value) -> PutOptions {
    let mut o = PutOptions::default();
    if let Some(u) = op["uri"].as_str() {
        o.uri = Some(u.to_string());
    }
    if let Some(t) = op["ts"].as_i64() {
        o.timestamp = Some(t);
    }
    if let Some(t) = op["title"].as_str() {
        o.title = Some(t.to_string());
    }
    if let Some(t) = op["track"].as_str() {
        o.track = Some(t.to_string());
    }
    if let Some(t) = op["kindf"].as_str() {
        o.kind = Some(t.to_string());
    }
    if let Some(a) = op["tags"].as_array() {
        o.tags = a.iter().filter_map(|x| x.as_str().map(String::from)).collect();
    }
    if let Some(a) = op["labels"].as_array() {
        o.labels = a.iter().filter_map(|x| x.as_str().map(String::from)).collect();
    }
    if let Some(m) = op["extra"].as_object() {
        for (k, v) in m {
            o.extra_metadata.insert(k.clone(), v.as_str().unwrap_or("").to_string());
        }
    }
    if let Some(s) = op["search_text"].as_str() {
        o.search_text = Some(s.to_string());
    }
    // abstract descriptive fields: id k > 0 -> a concrete value carrying k
    if let Some(m) = op["meta"].as_object() {
        let id = |k: &str| m.get(k).and_then(|v| v.as_u64()).unwrap_or(0);
        if id("title") > 0 {
            o.title = Some(format!("title-{}", id("title")));
        }
        if id("track") > 0 {
            o.track = Some(format!("track-{}", id("track")));
        }
        if id("kind") > 0 {
            o.kind = Some(format!("kind-{}", id("kind")));
        }
        if id("tags") > 0 {
            o.tags = vec![format!("tag-{}", id("tags")), "common".to_string()];
        }
        if id("labels") > 0 {
            o.labels = vec![format!("label-{}", id("labels"))];
        }
        if id("extra") > 0 {
            o.extra_metadata.insert("verif".to_string(), format!("extra-{}", id("extra")));
        }
    }
    // ACL metadata (C12): shape "ok" writes well-formed values, other shapes write what the policy must deny
    if let Some(a) = op["acl"].as_object() {
        let g = |k: &str| a.get(k).and_then(|v| v.as_str()).unwrap_or("").to_string();
        let list = |k: &str| -> Option<String> {
            a.get(k).and_then(|v| v.as_array()).map(|xs| serde_json::to_string(&xs.iter().filter_map(|x| x.as_str()).collect::<Vec<_>>()).unwrap())
        };
        let shape = g("shape");
        if shape != "missing" {
            if shape != "no_tenant" {
                let t = g("tenant");
                o.extra_metadata.insert("acl_tenant_id".into(), if shape == "quoted" { format!("\"{t}\"") } else if shape == "padded" { format!("  {t} ") } else { t });
            }
            o.extra_metadata.insert("acl_visibility".into(), if shape == "bad_vis" { "internal".into() } else { g("vis") });
            if let Some(r) = list("roles") {
                o.extra_metadata.insert("acl_read_roles".into(), if shape == "bad_list" { "not-json".into() } else { r });
            }
            if let Some(r) = list("groups") {
                o.extra_metadata.insert("acl_read_groups".into(), r);
            }
            if let Some(r) = list("principals") {
                o.extra_metadata.insert("acl_read_principals".into(), r);
            }
        }
    }
    o.extraction_budget_ms = op["budget_ms"].as_u64().unwrap_or(0);
    o.auto_tag = op["auto_tag"].as_bool().unwrap_or(false);
    o.extract_dates = op["extract_dates"].as_bool().unwrap_or(false);
    o.extract_triplets = op["triplets"].as_bool().unwrap_or(false);
    o.instant_index = op["instant"].as_bool().unwrap_or(false);
    o.enable_embedding = op["enable_embedding"].as_bool().unwrap_or(false);
    o.dedup = op["dedup"].as_bool().unwrap_or(false);
    o.no_raw = op["no_raw"].as_bool().unwrap_or(false);
    if let Some(p) = op["parent_id"].as_u64() {
        o.parent_id = Some(p);
    }
    match op["role"].as_str() {
        Some("chunk") => o.role = FrameRole::DocumentChunk,
        Some("image") => o.role = FrameRole::ExtractedImage,
        _ => {}
    }
    o
}

/// Query atoms -> query string: "w3" a vocabulary word, "T2" tag:tag-2, "L1" label:label-1, keywords and parentheses as is.
fn query_of(op: &Value) -> String {
    if let Some(q) = op["q"].as_str() {
        return q.to_string();
    }
    let mut parts = Vec::new();
    for t in op["toks"].as_array().cloned().unwrap_or_default() {
        let s = t.as_str().unwrap_or("");
        if let Some(n) = s.strip_prefix('w').and_then(|x| x.parse::<usize>().ok()) {
            parts.push(VOCAB[n % VOCAB.len()].to_string());
        } else if let Some((a, b)) = s.strip_prefix('P').and_then(|x| x.split_once('_')).and_then(|(a, b)| Some((a.parse::<usize>().ok()?, b.parse::<usize>().ok()?))) {
            // a quoted phrase of two vocabulary words
            parts.push(format!("\"{} {}\"", VOCAB[a % VOCAB.len()], VOCAB[b % VOCAB.len()]));
        } else if let Some(n) = s.strip_prefix('T') {
            parts.push(format!("tag:tag-{n}"));
        } else if let Some(n) = s.strip_prefix('L') {
            parts.push(format!("label:label-{n}"));
        } else {
            parts.push(s.to_string());
        }
    }
    parts.join(" ")
}

fn acl_ctx(op: &Value) -> (Option<memvid_core::types::AclContext>, memvid_core::types::AclEnforcementMode) {
    use memvid_core::types::{AclContext, AclEnforcementMode};
    let mode = if op["mode"].as_str() == Some("enforce") { AclEnforcementMode::Enforce } else { AclEnforcementMode::Audit };
    let ctx = op["ctx"].as_object().map(|c| AclContext {
        tenant_id: c.get("tenant").and_then(|v| v.as_str()).map(String::from),
        subject_id: c.get("subject").and_then(|v| v.as_str()).map(String::from),
        roles: c.get("roles").and_then(|v| v.as_array()).map(|a| a.iter().filter_map(|x| x.as_str().map(String::from)).collect()).unwrap_or_default(),
        group_ids: c.get("groups").and_then(|v| v.as_array()).map(|a| a.iter().filter_map(|x| x.as_str().map(String::from)).collect()).unwrap_or_default(),
    });
    (ctx, mode)
}

fn hit_json(m: &mut Memvid, h: &memvid_core::types::SearchHit) -> Value {
    let text = catch_unwind(AssertUnwindSafe(|| m.frame_text_by_id(h.frame_id))).ok().and_then(|r| r.ok());
    let (ca, cb) = h.chunk_range.unwrap_or((0, usize::MAX >> 40));
    let mut text_ok = text.as_ref().and_then(|t| t.get(h.range.0..h.range.1)).is_some_and(|s| s == h.text);
    if !text_ok {
        // a hit inside a chunk frame: `range` and `chunk_range` are positions in the PARENT document's text
        let parent = catch_unwind(AssertUnwindSafe(|| m.frame_by_id(h.frame_id))).ok().and_then(|r| r.ok()).and_then(|f| f.parent_id);
        if let Some(p) = parent {
            let ptext = catch_unwind(AssertUnwindSafe(|| m.frame_text_by_id(p))).ok().and_then(|r| r.ok());
            text_ok = ptext.as_ref().and_then(|t| t.get(h.range.0..h.range.1)).is_some_and(|s| s == h.text)
                || (h.range.0 >= ca && text.as_ref().and_then(|t| t.get(h.range.0 - ca..h.range.1 - ca)).is_some_and(|s| s == h.text));
        }
        // last resort: the chunk text the hit itself carries (positions relative to chunk_range) - weaker, the engine's own bookkeeping
        if !text_ok && h.range.0 >= ca {
            text_ok = h.chunk_text.as_ref().and_then(|t| t.get(h.range.0 - ca..h.range.1 - ca)).is_some_and(|s| s == h.text);
        }
    }
    json!({"f": h.frame_id, "rank": h.rank, "a": h.range.0, "b": h.range.1, "ca": ca, "cb": cb, "text_ok": text_ok})
}

/// Bytes a payload occupies in the file: UTF-8 is stored zstd-compressed (level 3, or the batch's level; 0 = plain),
/// everything else verbatim.  This is what the capacity check charges.
fn stored_len(bytes: &[u8], batch_level: Option<i32>) -> usize {
    let level = batch_level.unwrap_or(3);
    if level != 0 && std::str::from_utf8(bytes).is_ok() {
        zstd::encode_all(std::io::Cursor::new(bytes), level).map(|v| v.len()).unwrap_or(bytes.len())
    } else {
        bytes.len()
    }
}

fn card_json(c: &memvid_core::types::MemoryCard) -> Value {
    let val = c.value.strip_prefix("val-").and_then(|k| k.parse::<i64>().ok()).unwrap_or(-1);
    json!({"id": c.id, "entity": c.entity, "slot": c.slot, "value": val, "eff": c.effective_timestamp(),
           "rel": format!("{:?}", c.version_relation).to_lowercase(), "src": c.source_frame_id, "raw_value": c.value.chars().take(40).collect::<String>(),
           "src_uri": c.source_uri.clone().unwrap_or_default(), "auto": val < 0})
}

fn words_of(op: &Value) -> Vec<String> {
    op["words"]
        .as_array()
        .map(|a| {
            a.iter()
                .filter_map(|x| x.as_u64().map(|i| VOCAB[(i as usize) % VOCAB.len()].to_string()).or_else(|| x.as_str().map(String::from)))
                .collect()
        })
        .unwrap_or_default()
}

/// Executes one abstract call; returns (result, extra fields for the event)
pub fn exec(ctx: &mut Ctx, op: &Value) -> (Value, Value) {
    let name = op["op"].as_str().unwrap_or("");
    let mut extra = json!({});
    let path = ctx.path.clone();
    let res = match name {
        "create" => {
            ctx.mem = None;
            match catch_unwind(AssertUnwindSafe(|| Memvid::create(&path))) {
                Ok(Ok(m)) => {
                    ctx.mem = Some(m);
                    ctx.ro = false;
                    res_ok(json!(null))
                }
                Ok(Err(e)) => res_err(&e),
                Err(p) => res_panic(p),
            }
        }
        "open" | "open_ro" => {
            ctx.mem = None;
            let ro = name == "open_ro";
            // C18: the file as it is BEFORE the read-only open (the open itself must not change it either)
            let before = if ro { ctx.file_identity() } else { None };
            let r = catch_unwind(AssertUnwindSafe(|| if ro { Memvid::open_read_only(&path) } else { Memvid::open(&path) }));
            match r {
                Ok(Ok(m)) => {
                    ctx.mem = Some(m);
                    ctx.ro = ro;
                    ctx.ro_digest = before;
                    res_ok(json!(null))
                }
                Ok(Err(e)) => res_err(&e),
                Err(p) => res_panic(p),
            }
        }
        "close" => {
            // Drop commits when dirty
            let was_ro = ctx.ro && ctx.mem.is_some();
            let m = ctx.mem.take();
            let r = match catch_unwind(AssertUnwindSafe(move || drop(m))) {
                Ok(()) => res_ok(json!(null)),
                Err(p) => res_panic(p),
            };
            if was_ro {
                // C18: letting go of a read-only handle must not change the file either
                extra = json!({"ro_closed_unchanged": ctx.ro_digest.is_some() && ctx.ro_digest == ctx.file_identity()});
            }
            r
        }
        "abandon" => {
            // the handle disappears between two calls without running Drop's commit:
            // keep the bytes the file has now, let the handle go, put the bytes back.
            let bytes = std::fs::read(&path).unwrap_or_default();
            let m = ctx.mem.take();
            let _ = catch_unwind(AssertUnwindSafe(move || drop(m)));
            // remove whatever drop left and restore the snapshot under the same name
            let _ = std::fs::remove_file(&path);
            let mut f = std::fs::File::create(&path).expect("restore snapshot");
            f.write_all(&bytes).expect("restore snapshot");
            f.sync_all().ok();
            res_ok(json!(null))
        }
        "legacy_lock" => {
            // a file as an older release left it: lock-owner metadata in the reserved bytes 80..140 of the header
            // (HeaderCodec documents them as legacy lock metadata).  Only with no handle open.
            use std::io::{Seek, SeekFrom};
            if ctx.mem.is_some() {
                json!({"ok": false, "err": "HandleOpen"})
            } else {
                match std::fs::OpenOptions::new().write(true).open(&path) {
                    Ok(mut f) => {
                        let fill: Vec<u8> = (0..60u8).map(|i| 0x41 + (i % 26)).collect();
                        let ok = f.seek(SeekFrom::Start(80)).is_ok() && f.write_all(&fill).is_ok() && f.sync_all().is_ok();
                        if ok { res_ok(json!(null)) } else { json!({"ok": false, "err": "Io"}) }
                    }
                    Err(_) => json!({"ok": false, "err": "Io"}),
                }
            }
        }
        "put" => {
            let id = op["pay"].as_i64().unwrap_or(0);
            let cls = op["cls"].as_str().unwrap_or("text");
            let size = op["size"].as_u64().unwrap_or(40) as usize;
            let bytes = match op["text"].as_str() {
                Some(t) => t.as_bytes().to_vec(),       // literal text (triplet extraction scenarios)
                None => payload_bytes(id as u64, cls, size, &words_of(op)),
            };
            let opts = put_options(op);
            let emb = op["emb"].as_u64().filter(|e| *e > 0);
            let dim = op["dim"].as_u64().unwrap_or(4) as usize;
            let chunk_embs: Option<Vec<u64>> = op["chunk_embs"].as_array().map(|a| a.iter().filter_map(|x| x.as_u64()).collect());
            // what the stored frames must contain, registered before the call
            let planned = ctx.mem.as_ref().and_then(|m| m.preview_chunks(&bytes));
            match &planned {
                Some(chunks) => {
                    // parent's canonical payload is the concatenation of its chunks
                    let concat: String = chunks.concat();
                    ctx.register_payload(id * 1000, concat.as_bytes());
                    for (k, c) in chunks.iter().enumerate() {
                        ctx.register_payload(id * 1000 + 1 + k as i64, c.as_bytes());
                    }
                    extra["nchunks"] = json!(chunks.len());
                    let norm = memvid_core::normalize_text(&String::from_utf8_lossy(&bytes), usize::MAX).map(|n| n.text).unwrap_or_default();
                    extra["concat_is_normalized"] = json!(concat == norm);
                }
                None => {
                    ctx.register_payload(id * 1000, &bytes);
                    extra["nchunks"] = json!(0);
                }
            }
            extra["stored_hint"] = json!(bytes.len());
            extra["stored_len"] = json!(stored_len(&bytes, ctx.batch_level));
            let e_vec = emb.map(|e| embedding(e, dim));
            if let (Some(e), Some(v)) = (emb, e_vec.as_ref()) {
                ctx.register_emb(e as i64, v);
            }
            let ce_vecs: Option<Vec<Vec<f32>>> = chunk_embs.as_ref().map(|ids| {
                ids.iter().map(|e| if *e == 0 { Vec::new() } else { embedding(*e, dim) }).collect()
            });
            if let (Some(ids), Some(vs)) = (chunk_embs.as_ref(), ce_vecs.as_ref()) {
                for (e, v) in ids.iter().zip(vs.iter()) {
                    if *e > 0 {
                        ctx.register_emb(*e as i64, v);
                    }
                }
            }
            match ctx.mem.as_mut() {
                None => json!({"ok": false, "err": "NoHandle"}),
                Some(m) => guard(
                    || {
                        if let Some(ce) = ce_vecs {
                            m.put_with_chunk_embeddings(&bytes, e_vec, ce, opts)
                        } else if let Some(v) = e_vec {
                            m.put_with_embedding_and_options(&bytes, v, opts)
                        } else {
                            m.put_bytes_with_options(&bytes, opts)
                        }
                    },
                    |s| json!(s),
                ),
            }
        }
        "update" => {
            let fid = op["frame"].as_u64().unwrap_or(0);
            let opts = put_options(op);
            let payload = op["pay"].as_i64().map(|id| {
                let cls = op["cls"].as_str().unwrap_or("text");
                let size = op["size"].as_u64().unwrap_or(40) as usize;
                let b = payload_bytes(id as u64, cls, size, &words_of(op));
                (id, b)
            });
            if let Some((_, b)) = payload.as_ref() {
                extra["stored_len"] = json!(stored_len(b, ctx.batch_level));
            }
            if let Some((id, b)) = payload.as_ref() {
                let planned = ctx.mem.as_ref().and_then(|m| m.preview_chunks(b));
                match planned {
                    Some(chunks) => {
                        let concat: String = chunks.concat();
                        ctx.register_payload(id * 1000, concat.as_bytes());
                        for (k, c) in chunks.iter().enumerate() {
                            ctx.register_payload(id * 1000 + 1 + k as i64, c.as_bytes());
                        }
                        extra["nchunks"] = json!(chunks.len());
                    }
                    None => {
                        ctx.register_payload(id * 1000, b);
                        extra["nchunks"] = json!(0);
                    }
                }
            }
            let emb = op["emb"].as_u64().filter(|e| *e > 0);
            let dim = op["dim"].as_u64().unwrap_or(4) as usize;
            let e_vec = emb.map(|e| embedding(e, dim));
            if let (Some(e), Some(v)) = (emb, e_vec.as_ref()) {
                ctx.register_emb(e as i64, v);
            }
            match ctx.mem.as_mut() {
                None => json!({"ok": false, "err": "NoHandle"}),
                Some(m) => guard(|| m.update_frame(fid, payload.map(|p| p.1), opts, e_vec), |s| json!(s)),
            }
        }
        "delete" => {
            let fid = op["frame"].as_u64().unwrap_or(0);
            match ctx.mem.as_mut() {
                None => json!({"ok": false, "err": "NoHandle"}),
                Some(m) => guard(|| m.delete_frame(fid), |s| json!(s)),
            }
        }
        "commit" => match ctx.mem.as_mut() {
            None => json!({"ok": false, "err": "NoHandle"}),
            Some(m) => guard(|| m.commit(), |_| json!(null)),
        },
        "vacuum" => match ctx.mem.as_mut() {
            None => json!({"ok": false, "err": "NoHandle"}),
            Some(m) => guard(|| m.vacuum(), |_| json!(null)),
        },
        "begin_batch" => match ctx.mem.as_mut() {
            None => json!({"ok": false, "err": "NoHandle"}),
            Some(m) => {
                let mut o = memvid_core::PutManyOpts::default();
                if let Some(b) = op["skip_sync"].as_bool() {
                    o.skip_sync = b;
                }
                if let Some(b) = op["no_auto"].as_bool() {
                    o.disable_auto_checkpoint = b;
                }
                if let Some(l) = op["level"].as_i64() {
                    o.compression_level = l as i32;
                }
                ctx.batch_level = Some(o.compression_level);
                if let Some(p) = op["presize"].as_u64() {
                    o.wal_pre_size_bytes = p;
                }
                guard(|| m.begin_batch(o), |_| json!(null))
            }
        },
        "end_batch" => match ctx.mem.as_mut() {
            None => json!({"ok": false, "err": "NoHandle"}),
            Some(m) => {
                ctx.batch_level = None;
                guard(|| m.end_batch(), |_| json!(null))
            }
        },
        "commit_skip" => match ctx.mem.as_mut() {
            None => json!({"ok": false, "err": "NoHandle"}),
            Some(m) => guard(|| m.commit_skip_indexes(), |_| json!(null)),
        },
        "finalize" => match ctx.mem.as_mut() {
            None => json!({"ok": false, "err": "NoHandle"}),
            Some(m) => guard(|| m.finalize_indexes(), |_| json!(null)),
        },
        "ticket" => {
            let t = Ticket {
                issuer: op["issuer"].as_str().unwrap_or("verif").to_string(),
                seq_no: op["seq"].as_i64().unwrap_or(0),
                expires_in_secs: 0,
                capacity_bytes: op["cap"].as_u64(),
            };
            match ctx.mem.as_mut() {
                None => json!({"ok": false, "err": "NoHandle"}),
                Some(m) => guard(|| m.apply_ticket(t), |_| json!(null)),
            }
        }
        "bind_only" | "bind" => {
            let k = op["mem"].as_i64().unwrap_or(1);
            let b: memvid_core::types::MemoryBinding = serde_json::from_value(json!({"memory_id": mem_uuid(k), "memory_name": format!("memory {k}"),
                "bound_at": "2026-01-01T00:00:00Z", "api_url": "https://verif.invalid"})).expect("binding");
            match ctx.mem.as_mut() {
                None => json!({"ok": false, "err": "NoHandle"}),
                Some(m) if name == "bind_only" => guard(|| m.set_memory_binding_only(b), |_| json!(null)),
                Some(m) => {
                    let t = Ticket { issuer: op["issuer"].as_str().unwrap_or("verif").to_string(), seq_no: op["seq"].as_i64().unwrap_or(0),
                                     expires_in_secs: 0, capacity_bytes: op["cap"].as_u64() };
                    guard(|| m.bind_memory(b, t), |_| json!(null))
                }
            }
        }
        "unbind" => match ctx.mem.as_mut() {
            None => json!({"ok": false, "err": "NoHandle"}),
            Some(m) => guard(|| m.unbind_memory(), |_| json!(null)),
        },
        "signed_ticket" => {
            // C25: a ticket signed with the test key the crate was told to trust (verif::set_ticket_pubkey), then tampered
            // with as the scenario says.  x.authentic = the signature is over exactly the fields presented, by that key.
            use ed25519_dalek::Signer;
            let tamper = op["tamper"].as_str().unwrap_or("none");
            let named = op["mem"].as_i64().unwrap_or(1);
            let issuer = op["issuer"].as_str().unwrap_or("memvid.com").to_string();
            let seq = op["seq"].as_i64().unwrap_or(0);
            let exp = op["exp"].as_u64().unwrap_or(3600);
            let cap = op["cap"].as_u64();
            let msg = |mem: i64, issuer: &str, seq: i64, exp: u64, cap: Option<u64>| {
                format!("{{\"version\":1,\"memory_id\":\"{}\",\"issuer\":{},\"seq_no\":{},\"expires_in\":{},\"capacity_bytes\":{}}}",
                        mem_uuid(mem), serde_json::to_string(issuer).unwrap(), seq, exp, cap.map(|c| c.to_string()).unwrap_or("null".into()))
            };
            let key = if tamper == "wrongkey" { ticket_key(9) } else { ticket_key(7) };
            // the fields that are signed vs the fields that are presented
            let (s_mem, s_issuer, s_seq, s_exp, s_cap) = match tamper {
                "mem" => (named + 1, issuer.clone(), seq, exp, cap),
                "issuer" => (named, format!("{issuer}x"), seq, exp, cap),
                "seq" => (named, issuer.clone(), seq - 1, exp, cap),
                "exp" => (named, issuer.clone(), seq, exp + 1, cap),
                "cap" => (named, issuer.clone(), seq, exp, Some(cap.unwrap_or(0) / 2 + 1)),
                "cap_none" => (named, issuer.clone(), seq, exp, if cap.is_some() { None } else { Some(1) }),
                _ => (named, issuer.clone(), seq, exp, cap),
            };
            let mut sig = key.sign(msg(s_mem, &s_issuer, s_seq, s_exp, s_cap).as_bytes()).to_bytes().to_vec();
            match tamper {
                "sig_flip" => sig[op["at"].as_u64().unwrap_or(5) as usize % 64] ^= 0x40,
                "sig_short" => { sig.truncate(63); }
                "sig_long" => sig.push(0),
                "sig_long2" => sig.extend_from_slice(&[7u8; 64]),
                "sig_zero" => sig = vec![0u8; 64],
                "sig_empty" => sig.clear(),
                _ => {}
            }
            let authentic = matches!(tamper, "none");
            extra = json!({"mem": named, "authentic": authentic, "tamper": tamper});
            let t: memvid_core::types::SignedTicket = serde_json::from_value(json!({"issuer": issuer, "seq_no": seq, "expires_in_secs": exp,
                "capacity_bytes": cap, "memory_id": mem_uuid(named), "signature": b64(&sig)})).expect("signed ticket");
            match ctx.mem.as_mut() {
                None => json!({"ok": false, "err": "NoHandle"}),
                Some(m) => guard(|| m.apply_signed_ticket(t), |_| json!(null)),
            }
        }
        "verify" => {
            // static call on the path; the handle (if any) stays open
            let deep = op["deep"].as_bool().unwrap_or(true);
            guard(|| Memvid::verify(&path, deep), |r| json!(format!("{:?}", r.overall_status)))
        }
        "doctor" => {
            // doctor needs the exclusive lock: only called with no handle open
            let o = DoctorOptions {
                rebuild_time_index: op["time"].as_bool().unwrap_or(false),
                rebuild_lex_index: op["lex"].as_bool().unwrap_or(false),
                rebuild_vec_index: op["vec"].as_bool().unwrap_or(false),
                vacuum: op["vacuum"].as_bool().unwrap_or(false),
                dry_run: op["dry_run"].as_bool().unwrap_or(false),
                quiet: true,
            };
            guard(|| Memvid::doctor(&path, o), |r| {
                json!({"status": format!("{:?}", r.status),
                       "verify": r.verification.map(|v| format!("{:?}", v.overall_status))})
            })
        }
        "timeline" => {
            let mut b = TimelineQuery::builder();
            if let Some(l) = op["limit"].as_u64().and_then(NonZeroU64::new) {
                b = b.limit(l);
            }
            if let Some(s) = op["since"].as_i64() {
                b = b.since(s);
            }
            if let Some(u) = op["until"].as_i64() {
                b = b.until(u);
            }
            if op["reverse"].as_bool().unwrap_or(false) {
                b = b.reverse(true);
            }
            let q = b.build();
            match ctx.mem.as_mut() {
                None => json!({"ok": false, "err": "NoHandle"}),
                Some(m) => guard(|| m.timeline(q), |es| {
                    json!(es.iter().map(|e| json!([e.frame_id, e.timestamp])).collect::<Vec<_>>())
                }),
            }
        }
        "sketch" => {
            // the sketch track's candidate list for a query (ids, scores in 1/1000, Hamming distance, matching top terms):
            // an observation two executions of one history must agree on (C23)
            let q = query_of(op);
            match ctx.mem.as_mut() {
                None => json!({"ok": false, "err": "NoHandle"}),
                Some(m) => match catch_unwind(AssertUnwindSafe(|| m.find_sketch_candidates(&q, Some(memvid_core::SketchSearchOptions { hamming_threshold: 64, max_candidates: 2000, min_score: 0.0 })))) {
                    Ok(c) => json!({"ok": true, "val": {"frames": c.iter().map(|x| x.frame_id).collect::<Vec<_>>(),
                        "cands": c.iter().map(|x| json!([x.frame_id, (x.score * 1000.0).round() as i64, x.hamming_distance, x.matching_top_terms])).collect::<Vec<_>>()}}),
                    Err(p) => res_panic(p),
                },
            }
        }
        "vecset" => {
            // C14: which frames does vector search find at distance 0 for every embedding used so far?
            let mut embs: Vec<(i64, Vec<f32>)> = ctx.embs.iter().map(|(k, v)| (*v, k.iter().map(|b| f32::from_bits(*b)).collect())).collect();
            embs.sort_by_key(|e| e.0);
            match ctx.mem.as_mut() {
                None => json!({"ok": false, "err": "NoHandle"}),
                Some(m) => {
                    let mut out = Vec::new();
                    let mut err = None;
                    for (id, v) in &embs {
                        match catch_unwind(AssertUnwindSafe(|| m.search_vec(v, 10_000))) {
                            Ok(Ok(hits)) => {
                                let mut fs: Vec<u64> = hits.iter().filter(|h| h.distance == 0.0).map(|h| h.frame_id).collect();
                                fs.sort_unstable();
                                out.push(json!({"emb": id, "frames": fs, "n": hits.len()}));
                            }
                            Ok(Err(e)) => {
                                err = Some(res_err(&e));
                                break;
                            }
                            Err(p) => {
                                err = Some(res_panic(p));
                                break;
                            }
                        }
                    }
                    err.unwrap_or_else(|| res_ok(json!(out)))
                }
            }
        }
        "search" => {
            use memvid_core::types::SearchRequest;
            let q = query_of(op);
            let (ctx_acl, mode) = acl_ctx(op);
            let mk = |top_k: usize, cursor: Option<String>, with_acl: bool, cut: bool| SearchRequest {
                query: q.clone(),
                top_k,
                snippet_chars: op["snippet"].as_u64().unwrap_or(120) as usize,
                uri: op["uri"].as_str().map(String::from),
                scope: op["scope"].as_str().map(String::from),
                cursor,
                as_of_frame: if cut { op["as_of_frame"].as_u64() } else { None },
                as_of_ts: if cut { op["as_of_ts"].as_i64() } else { None },
                no_sketch: op["no_sketch"].as_bool().unwrap_or(false),
                acl_context: if with_acl { ctx_acl.clone() } else { None },
                acl_enforcement_mode: if with_acl { mode } else { memvid_core::types::AclEnforcementMode::Audit },
            };
            let top_k = op["top_k"].as_u64().unwrap_or(10) as usize;
            match ctx.mem.as_mut() {
                None => json!({"ok": false, "err": "NoHandle"}),
                Some(m) => {
                    let r = catch_unwind(AssertUnwindSafe(|| m.search(mk(top_k, None, true, true))));
                    match r {
                        Err(p) => res_panic(p),
                        Ok(Err(e)) => res_err(&e),
                        Ok(Ok(resp)) => {
                            let hits: Vec<Value> = resp.hits.iter().map(|h| hit_json(m, h)).collect();
                            let mut val = json!({"total": resp.total_hits, "hits": hits, "next": resp.next_cursor.is_some(),
                                                 "engine": format!("{:?}", resp.engine)});
                            // the same query without time-travel cut-off and without ACL context, large top_k (C11 / C12 reference)
                            if op["with_base"].as_bool().unwrap_or(false) {
                                if let Ok(Ok(b)) = catch_unwind(AssertUnwindSafe(|| m.search(mk(1000, None, false, false)))) {
                                    let mut fs: Vec<u64> = b.hits.iter().map(|h| h.frame_id).collect();
                                    fs.sort_unstable();
                                    fs.dedup();
                                    val["base"] = json!(fs);
                                    val["base_seq"] = json!(b.hits.iter().map(|h| json!([h.frame_id, h.range.0, h.range.1])).collect::<Vec<_>>());
                                }
                            }
                            // C16: follow the cursor to the end with this page size
                            if op["paged"].as_bool().unwrap_or(false) {
                                let mut pages = vec![json!(resp.hits.iter().map(|h| json!([h.frame_id, h.range.0, h.range.1])).collect::<Vec<_>>())];
                                let mut totals = vec![resp.total_hits];
                                let mut cur = resp.next_cursor.clone();
                                let mut guard_n = 0;
                                while let Some(c) = cur {
                                    guard_n += 1;
                                    if guard_n > 400 {
                                        val["paging_runaway"] = json!(true);
                                        break;
                                    }
                                    match catch_unwind(AssertUnwindSafe(|| m.search(mk(top_k, Some(c), true, true)))) {
                                        Ok(Ok(pg)) => {
                                            pages.push(json!(pg.hits.iter().map(|h| json!([h.frame_id, h.range.0, h.range.1])).collect::<Vec<_>>()));
                                            totals.push(pg.total_hits);
                                            cur = pg.next_cursor.clone();
                                        }
                                        Ok(Err(e)) => {
                                            val["paging_err"] = res_err(&e);
                                            break;
                                        }
                                        Err(p) => {
                                            val["paging_err"] = res_panic(p);
                                            break;
                                        }
                                    }
                                }
                                val["pages"] = json!(pages);
                                val["totals"] = json!(totals);
                                if let Ok(Ok(all)) = catch_unwind(AssertUnwindSafe(|| m.search(mk(1000, None, true, true)))) {
                                    val["oneshot"] = json!(all.hits.iter().map(|h| json!([h.frame_id, h.range.0, h.range.1])).collect::<Vec<_>>());
                                    val["oneshot_total"] = json!(all.total_hits);
                                }
                            }
                            res_ok(val)
                        }
                    }
                }
            }
        }
        "vsearch" => {
            // query vector = embedding(id, dim) (the same deterministic integer vectors the puts use)
            let e = op["emb"].as_u64().unwrap_or(1);
            let dim = op["dim"].as_u64().unwrap_or(4) as usize;
            let k = op["k"].as_u64().unwrap_or(5) as usize;
            let qv = embedding(e, dim);
            match ctx.mem.as_mut() {
                None => json!({"ok": false, "err": "NoHandle"}),
                Some(m) => guard(|| m.search_vec(&qv, k), |hits| {
                    json!(hits.iter().map(|h| json!({"f": h.frame_id, "d2": (h.distance * h.distance).round() as i64})).collect::<Vec<_>>())
                }),
            }
        }
        "vtext" | "adaptive" | "ask" => {
            // the other retrieval paths (C08 / C12): which frames do they return?
            let q = query_of(op);
            let e = op["emb"].as_u64().unwrap_or(1);
            let dim = op["dim"].as_u64().unwrap_or(4) as usize;
            let qv = embedding(e, dim);
            let (ctx_acl, mode) = acl_ctx(op);
            let top_k = op["top_k"].as_u64().unwrap_or(10) as usize;
            match ctx.mem.as_mut() {
                None => json!({"ok": false, "err": "NoHandle"}),
                Some(m) => {
                    if name == "vtext" {
                        guard(|| m.vec_search_with_embedding_acl(&q, &qv, top_k, 120, None, ctx_acl.as_ref(), mode),
                              |r| json!({"frames": r.hits.iter().map(|h| h.frame_id).collect::<Vec<_>>()}))
                    } else if name == "adaptive" {
                        let cfg = memvid_core::types::AdaptiveConfig { max_results: 50, ..Default::default() };
                        guard(|| m.search_adaptive_acl(&q, &qv, cfg, 120, None, ctx_acl.as_ref(), mode),
                              |r| json!({"frames": r.results.iter().map(|h| h.frame_id).collect::<Vec<_>>()}))
                    } else {
                        use memvid_core::types::{AskMode, AskRequest};
                        let req = AskRequest {
                            question: q.clone(), top_k, snippet_chars: 120, uri: None, scope: None, cursor: None, start: None, end: None,
                            context_only: true, mode: AskMode::Lex, as_of_frame: op["as_of_frame"].as_u64(), as_of_ts: op["as_of_ts"].as_i64(),
                            adaptive: None, acl_context: ctx_acl.clone(), acl_enforcement_mode: mode,
                        };
                        struct NoEmb;
                        impl memvid_core::types::VecEmbedder for NoEmb {
                            fn embed_query(&self, _t: &str) -> memvid_core::Result<Vec<f32>> {
                                Ok(Vec::new())
                            }
                            fn embedding_dimension(&self) -> usize {
                                0
                            }
                        }
                        guard(|| m.ask::<NoEmb>(req, None), |r| {
                            let mut fs: Vec<u64> = r.retrieval.hits.iter().map(|h| h.frame_id).collect();
                            fs.extend(r.citations.iter().map(|c| c.frame_id));
                            fs.extend(r.context_fragments.iter().map(|c| c.frame_id));
                            fs.sort_unstable();
                            fs.dedup();
                            json!({"frames": fs})
                        })
                    }
                }
            }
        }
        "by_uri" => {
            let uri = op["uri"].as_str().unwrap_or("");
            match ctx.mem.as_ref() {
                None => json!({"ok": false, "err": "NoHandle"}),
                Some(m) => guard(|| m.frame_by_uri(uri), |f| json!({"id": f.id, "st": status_str(f.status)})),
            }
        }
        "sidecar" => {
            // plant a forbidden sidecar next to the memory (C19)
            let suffix = op["suffix"].as_str().unwrap_or("-wal");
            let dot = op["dot"].as_bool().unwrap_or(false);
            let name = path.file_name().unwrap().to_string_lossy().to_string();
            let side = if dot { format!(".{name}{suffix}") } else { format!("{name}{suffix}") };
            let p = path.parent().unwrap().join(&side);
            let r = std::fs::write(&p, b"x");
            extra["sidecar"] = json!(side);
            json!({"ok": r.is_ok(), "val": null})
        }
        "rm_sidecars" => {
            for n in ctx.dir_listing() {
                if n != "m.mv2" {
                    let _ = std::fs::remove_file(ctx.dir.path().join(n));
                }
            }
            res_ok(json!(null))
        }
        "card_put" => {
            use memvid_core::types::MemoryCardBuilder;
            let mut b = MemoryCardBuilder::new().fact()
                .entity(op["entity"].as_str().unwrap_or("e1"))
                .slot(op["slot"].as_str().unwrap_or("s1"))
                .value(format!("val-{}", op["value"].as_i64().unwrap_or(0)))
                .engine("verif", "1")
                .source(op["frame"].as_u64().unwrap_or(0), None);
            if let Some(t) = op["event_date"].as_i64() {
                b = b.event_date(t);
            }
            if let Some(t) = op["document_date"].as_i64() {
                b = b.document_date(t);
            }
            b = match op["rel"].as_str() {
                Some("updates") => b.updates(),
                Some("extends") => b.extends(),
                Some("retracts") => b.retracts(),
                _ => b,
            };
            match ctx.mem.as_mut() {
                None => json!({"ok": false, "err": "NoHandle"}),
                Some(m) => match b.build(0) {
                    Ok(card) => guard(|| m.put_memory_card(card), |id| json!(id)),
                    Err(e) => json!({"ok": false, "err": "CardBuild", "msg": format!("{e:?}").chars().take(100).collect::<String>()}),
                },
            }
        }
        "card_current" | "card_at" => {
            let e = op["entity"].as_str().unwrap_or("e1");
            let sl = op["slot"].as_str().unwrap_or("s1");
            match ctx.mem.as_ref() {
                None => json!({"ok": false, "err": "NoHandle"}),
                Some(m) => {
                    let r = catch_unwind(AssertUnwindSafe(|| {
                        let c = if name == "card_current" { m.get_current_memory(e, sl) } else { m.get_memory_at_time(e, sl, op["t"].as_i64().unwrap_or(0)) };
                        c.map(card_json)
                    }));
                    // C27 relates the answer at time t to get_current_memory: recorded with every answer
                    let cur = catch_unwind(AssertUnwindSafe(|| m.get_current_memory(e, sl).map(|c| c.id as i64).unwrap_or(-1))).unwrap_or(-2);
                    match r {
                        Ok(Some(c)) => res_ok(json!({"found": true, "card": c, "current": cur})),
                        Ok(None) => res_ok(json!({"found": false, "current": cur})),
                        Err(p) => res_panic(p),
                    }
                }
            }
        }
        "mesh_node" => {
            use memvid_core::types::logic_mesh::{EntityKind, MeshNode};
            let nm = op["name"].as_str().unwrap_or("n1");
            let node = MeshNode::new(nm.to_lowercase(), nm.to_string(), EntityKind::from_label(op["kind"].as_str().unwrap_or("person")),
                                     op["conf"].as_u64().unwrap_or(50) as f32 / 100.0, op["frame"].as_u64().unwrap_or(0),
                                     op["start"].as_u64().unwrap_or(0) as u32, op["len"].as_u64().unwrap_or(1) as u16);
            match ctx.mem.as_mut() {
                None => json!({"ok": false, "err": "NoHandle"}),
                Some(m) => match catch_unwind(AssertUnwindSafe(|| m.add_mesh_node(node))) { Ok(()) => res_ok(json!(null)), Err(p) => res_panic(p) },
            }
        }
        "mesh_edge" => {
            use memvid_core::types::logic_mesh::{EntityKind, LinkType, MeshEdge, compute_node_id};
            let mut id = |n: &str, k: &str| {
                let kind = EntityKind::from_label(k);
                let v = compute_node_id(&n.to_lowercase(), kind);
                ctx.mesh_names.insert(v, format!("{}|{}", n.to_lowercase(), kind.as_str()));
                v
            };
            let (a, b) = (id(op["from"].as_str().unwrap_or("n1"), op["fkind"].as_str().unwrap_or("person")),
                          id(op["to"].as_str().unwrap_or("n2"), op["tkind"].as_str().unwrap_or("person")));
            let e = MeshEdge::new(a, b,
                                  LinkType::from_str(op["link"].as_str().unwrap_or("member")), op["conf"].as_u64().unwrap_or(50) as f32 / 100.0,
                                  op["frame"].as_u64().unwrap_or(0));
            match ctx.mem.as_mut() {
                None => json!({"ok": false, "err": "NoHandle"}),
                Some(m) => match catch_unwind(AssertUnwindSafe(|| m.add_mesh_edge(e))) { Ok(()) => res_ok(json!(null)), Err(p) => res_panic(p) },
            }
        }
        "mesh" => match ctx.mem.as_ref() {
            None => json!({"ok": false, "err": "NoHandle"}),
            Some(m) => {
                // C27: the whole mesh, identities resolved to names so that it can be compared as a set
                let mesh = m.logic_mesh();
                let names = &ctx.mesh_names;
                let name_of = |id: u64| mesh.find_node_by_id(id).map(|n| format!("{}|{}", n.canonical_name, n.kind.as_str()))
                    .or_else(|| names.get(&id).cloned()).unwrap_or_else(|| format!("?{id}"));
                let mut nodes: Vec<Value> = mesh.nodes.iter().map(|n| {
                    let mut fr = n.frame_ids.clone();
                    fr.sort_unstable();
                    let mut me: Vec<(u64, u32, u16)> = n.mentions.clone();
                    me.sort_unstable();
                    json!({"name": n.canonical_name, "kind": n.kind.as_str(), "conf": n.confidence, "frames": fr,
                           "ments": me.iter().map(|x| json!([x.0, x.1, x.2])).collect::<Vec<_>>(), "display": n.display_name,
                           "id_ok": n.id == memvid_core::types::logic_mesh::compute_node_id(&n.canonical_name, n.kind)})
                }).collect();
                nodes.sort_by_key(|v| v.to_string());
                let mut edges: Vec<Value> = mesh.edges.iter().map(|e| json!({"from": name_of(e.from_node), "to": name_of(e.to_node), "link": e.link.as_str(),
                                                                             "conf": e.confidence, "frame": e.frame_id})).collect();
                edges.sort_by_key(|v| v.to_string());
                res_ok(json!({"nodes": nodes, "edges": edges, "node_count": m.mesh_node_count(), "edge_count": m.mesh_edge_count()}))
            }
        },
        "cards" => match ctx.mem.as_mut() {
            None => json!({"ok": false, "err": "NoHandle"}),
            Some(m) => {
                let cards: Vec<memvid_core::types::MemoryCard> = m.memories().cards().to_vec();
                let mut out = Vec::new();
                for c in &cards {
                    let mut j = card_json(c);
                    // C26: does the frame the card points at exist, carry this URI, and contain the card's value?
                    let fr = m.frame_by_id(c.source_frame_id).ok();
                    j["src_exists"] = json!(fr.is_some());
                    j["src_uri_matches"] = json!(fr.as_ref().and_then(|f| f.uri.clone()) == c.source_uri && c.source_uri.is_some());
                    let text = catch_unwind(AssertUnwindSafe(|| m.frame_text_by_id(c.source_frame_id))).ok().and_then(|r| r.ok()).unwrap_or_default();
                    j["value_in_text"] = json!(text.to_lowercase().contains(&c.value.to_lowercase()));
                    // the whole document (for a chunked one: all chunks) - tells a value taken from another part of the document
                    // from a value the extractor made up
                    let doc = catch_unwind(AssertUnwindSafe(|| m.frame_canonical_payload(c.source_frame_id))).ok().and_then(|r| r.ok())
                        .map(|b| String::from_utf8_lossy(&b).to_lowercase()).unwrap_or_default();
                    j["value_in_doc"] = json!(doc.contains(&c.value.to_lowercase()));
                    out.push(j);
                }
                let snap: Value = serde_json::from_str(&memvid_core::verif::snapshot(m)).unwrap_or(json!({}));
                res_ok(json!({"cards": out, "queue": snap["queue"], "mesh_nodes": m.logic_mesh_manifest().map(|x| x.node_count).unwrap_or(0)}))
            }
        },
        "noop" => res_ok(json!(null)),
        "export" => {
            // copy the memory file out of the scratch directory (debugging aid / corruption experiments)
            let to = op["to"].as_str().unwrap_or("/tmp/export.mv2");
            json!({"ok": std::fs::copy(&path, to).is_ok()})
        }
        other => json!({"ok": false, "err": format!("UnknownOp:{other}")}),
    };
    (res, extra)
}

/// args: <scenarios.json> <out.ndjson>
pub fn run(args: &[String]) -> i32 {
    let input: Value = serde_json::from_str(&std::fs::read_to_string(&args[0]).expect("read scenarios")).expect("json");
    let mut out = std::io::BufWriter::new(std::fs::File::create(&args[1]).expect("create out"));
    // silence panic messages of the code under test (they are data, logged in the event)
    std::panic::set_hook(Box::new(|_| {}));
    trust_test_ticket_key();
    for sc in input["scenarios"].as_array().expect("scenarios") {
        let mut ctx = Ctx::new();
        let sid = sc["id"].clone();
        writeln!(out, "{}", json!({"ev": "reset", "run": sid, "n": 0})).unwrap();
        for (n, op) in sc["ops"].as_array().expect("ops").iter().enumerate() {
            let nfid_before = ctx.mem.as_ref().map(|m| m.next_frame_id());
            crate::util::fsrec_mark(&format!("begin {} {}", n + 1, op["op"].as_str().unwrap_or("")));
            let (res, extra) = exec(&mut ctx, op);
            crate::util::fsrec_mark(&format!("end {}", n + 1));
            let name = op["op"].as_str().unwrap_or("");
            let force_full = op["full"].as_bool().unwrap_or(false)
                || matches!(name, "create" | "open" | "open_ro" | "commit" | "vacuum" | "doctor" | "commit_skip" | "finalize" | "ticket" | "signed_ticket" | "bind" | "bind_only" | "unbind");
            let obs = ctx.observe(force_full);
            let mut ev = json!({"ev": name, "run": sid, "n": n + 1, "args": op, "res": res, "x": extra,
                                "nfid_before": nfid_before, "obs": obs});
            if std::env::var("MVH_FILE_DIGEST").is_ok() {
                // C23: digest of the file's bytes after the call (kept outside `obs`, which is compared logically)
                ev["fdigest"] = json!(std::fs::read(&ctx.path).map(|b| hex(blake3::hash(&b).as_bytes())).unwrap_or_default());
            }
            writeln!(out, "{}", crate::util::strip_nulls(ev)).unwrap();
        }
        if let Ok(rp) = std::env::var("MVH_REGISTRY_OUT") {
            // payload / embedding registry of this run, for `disk-probe` (digest hex -> id, embedding bits -> id)
            let d: serde_json::Map<String, Value> = ctx.digests.iter().map(|(k, v)| (hex(k), json!(v))).collect();
            let e: Vec<Value> = ctx.embs.iter().map(|(k, v)| json!({"bits": k, "id": v})).collect();
            std::fs::write(rp, json!({"digests": d, "embs": e}).to_string()).expect("write registry");
        }
        // leave no handle behind
        let m = ctx.mem.take();
        let _ = catch_unwind(AssertUnwindSafe(move || drop(m)));
    }
    out.flush().unwrap();
    0
}

#[allow(dead_code)]
pub fn path_of(ctx: &Ctx) -> &Path {
    &ctx.path
}
