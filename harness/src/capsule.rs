//! `func` engine, capsule part (C29; built only in harness-feat with memvid-core's `encryption` feature):
//! locks a real .mv2 file into a capsule, applies one tamper action of the Capsule specification to the capsule's
//! bytes, unlocks it with the real code and records whether unlock succeeded and whether the bytes it wrote equal the
//! original file.  No expectation here: TLC judges (Trace_Func, CapsuleOk).
use crate::util::scratch_dir;
use memvid_core::Memvid;
use memvid_core::encryption::{lock_file, unlock_file};
use memvid_core::types::PutOptions;
use serde_json::{Value, json};
use std::io::{BufRead, Write};

const HDR: usize = 64;

/// offsets of the framed stream: [(len_prefix_offset, chunk_offset, chunk_len)]
fn chunks_of(c: &[u8]) -> Vec<(usize, usize, usize)> {
    let mut v = Vec::new();
    let mut p = HDR;
    while p + 4 <= c.len() {
        let l = u32::from_le_bytes(c[p..p + 4].try_into().unwrap()) as usize;
        if p + 4 + l > c.len() {
            break;
        }
        v.push((p, p + 4, l));
        p += 4 + l;
    }
    v
}

fn tamper(c: &[u8], t: &Value) -> Option<Vec<u8>> {
    let ch = chunks_of(c);
    let kind = t["kind"].as_str().unwrap_or("none");
    let k = t["k"].as_u64().unwrap_or(0) as usize;
    let mut b = c.to_vec();
    match kind {
        "none" => {}
        // header fields: magic 0..4, version 4..6, kdf 6, cipher 7, salt 8..40, nonce 40..52, size 52..60, reserved 60..64
        "flip_header" => b[k.min(HDR - 1)] ^= 0x01,
        "flip_len" => {
            let (lp, _, _) = *ch.get(k)?;
            b[lp + (t["byte"].as_u64().unwrap_or(0) as usize % 4)] ^= 0x01;
        }
        "flip_chunk" => {
            let (_, co, l) = *ch.get(k)?;
            let pos = match t["where"].as_str() { Some("first") => 0, Some("last") => l - 1, _ => l / 2 };
            b[co + pos] ^= 0x80;
        }
        "trunc_boundary" => {
            // keep the first k chunks
            let end = if k == 0 { HDR } else { let (_, co, l) = *ch.get(k - 1)?; co + l };
            if end == b.len() { return None; }
            b.truncate(end);
        }
        "trunc_in_len" => {
            let (lp, _, _) = *ch.get(k)?;
            b.truncate(lp + 1 + (t["byte"].as_u64().unwrap_or(0) as usize % 3));
        }
        "trunc_in_chunk" => {
            let (_, co, l) = *ch.get(k)?;
            b.truncate(co + l / 2);
        }
        "trunc_header" => b.truncate(k.min(HDR - 1)),
        "swap" => {
            let (a0, _, al) = *ch.get(k)?;
            let (b0, _, bl) = *ch.get(k + 1)?;
            let first = c[a0..a0 + 4 + al].to_vec();
            let second = c[b0..b0 + 4 + bl].to_vec();
            let mut nb = c[..a0].to_vec();
            nb.extend_from_slice(&second);
            nb.extend_from_slice(&first);
            nb.extend_from_slice(&c[b0 + 4 + bl..]);
            b = nb;
        }
        "dup" => {
            let (a0, _, al) = *ch.get(k)?;
            let piece = c[a0..a0 + 4 + al].to_vec();
            let mut nb = c[..a0 + 4 + al].to_vec();
            nb.extend_from_slice(&piece);
            nb.extend_from_slice(&c[a0 + 4 + al..]);
            b = nb;
        }
        "drop" => {
            let (a0, _, al) = *ch.get(k)?;
            let mut nb = c[..a0].to_vec();
            nb.extend_from_slice(&c[a0 + 4 + al..]);
            b = nb;
        }
        "append" => b.extend_from_slice(&vec![0x41u8; 1 + k]),
        _ => return None,
    }
    Some(b)
}

/// args: <cases.ndjson> <out.ndjson>; each case {size_class: 0|1|2 (number of extra MiB), tamper: {...}}
pub fn run(args: &[String]) -> i32 {
    let inp = std::io::BufReader::new(std::fs::File::open(&args[0]).expect("open cases"));
    let mut out = std::io::BufWriter::new(std::fs::File::create(&args[1]).expect("create out"));
    std::panic::set_hook(Box::new(|_| {}));
    let dir = scratch_dir("capsule");
    let pw = b"correct horse battery staple";
    // one real memory per size class, locked once
    let mut base: std::collections::HashMap<u64, (Vec<u8>, Vec<u8>)> = std::collections::HashMap::new();
    for line in inp.lines() {
        let line = line.expect("line");
        if line.trim().is_empty() {
            continue;
        }
        let case: Value = serde_json::from_str(&line).expect("json");
        let sc = case["size_class"].as_u64().unwrap_or(0);
        if !base.contains_key(&sc) {
            let p = dir.path().join(format!("m{sc}.mv2"));
            let mut m = Memvid::create(&p).expect("create");
            let mut o = PutOptions::default();
            o.uri = Some("mv2://doc".into());
            o.timestamp = Some(1);
            o.extraction_budget_ms = 0;
            m.put_bytes_with_options(b"capsule source document alpha", o).expect("put");
            if sc > 0 {
                // incompressible binary filler so that the file spans sc + 1 encryption chunks
                let mut x = 0x9E37_79B9_7F4A_7C15u64;
                let filler: Vec<u8> = (0..(sc as usize) * 1_100_000).map(|_| { x ^= x << 13; x ^= x >> 7; x ^= x << 17; (x & 0xFF) as u8 | 0x80 }).collect();
                let mut o2 = PutOptions::default();
                o2.uri = Some("mv2://filler".into());
                o2.timestamp = Some(2);
                o2.extraction_budget_ms = 0;
                m.put_bytes_with_options(&filler, o2).expect("put filler");
            }
            m.commit().expect("commit");
            drop(m);
            let plain = std::fs::read(&p).expect("read");
            let cp = dir.path().join(format!("m{sc}.mv2e"));
            lock_file(&p, Some(&cp), pw).expect("lock");
            let caps = std::fs::read(&cp).expect("read capsule");
            base.insert(sc, (plain, caps));
        }
        let (plain, caps) = base.get(&sc).unwrap();
        let nchunks = chunks_of(caps).len();
        let o = match tamper(caps, &case["tamper"]) {
            None => json!({"skipped": true, "nchunks": nchunks}),
            Some(bytes) => {
                let tp = dir.path().join("t.mv2e");
                let op = dir.path().join("t.out.mv2");
                let _ = std::fs::remove_file(&op);
                std::fs::write(&tp, &bytes).expect("write tampered");
                let modified = &bytes != caps;
                let r = std::panic::catch_unwind(std::panic::AssertUnwindSafe(|| unlock_file(&tp, Some(&op), pw)));
                let written = std::fs::read(&op).ok();
                let res = match &r { Ok(Ok(_)) => "ok".to_string(), Ok(Err(e)) => format!("err:{}", format!("{e:?}").chars().take_while(|c| c.is_alphanumeric()).collect::<String>()), Err(_) => "panic".into() };
                json!({"skipped": false, "nchunks": nchunks, "modified": modified, "res": res, "ok": res == "ok",
                       "wrote": written.is_some(), "same": written.as_deref() == Some(plain.as_slice()), "plain_len": plain.len()})
            }
        };
        writeln!(out, "{}", json!({"ev": "capsule", "in": case, "out": o})).unwrap();
    }
    out.flush().unwrap();
    0
}
