//! C30 executor: concretises the abstract cases of spec/Codecs.tla (a value, one mutation of its
//! encoding) on the REAL codecs - HeaderCodec, CommitFooter, Toc, time index - and records what the
//! real decoder did.  No expected values here: the outcome is judged by TLC (Trace_Func!CodecOk).
use memvid_core::footer::{CommitFooter, FOOTER_SIZE};
use memvid_core::io::header::HeaderCodec;
use memvid_core::types::{Header, Toc};
use memvid_core::types::{PutOptions, Ticket};
use memvid_core::{Memvid, TimeIndexEntry, time_index_append, time_index_checksum, time_index_read};
use serde_json::{Value, json};
use std::io::Cursor;
use std::panic::{AssertUnwindSafe, catch_unwind};
use std::sync::OnceLock;

/// Boundary values a value class stands for (spec/Codecs.tla: BelowWal(i) == i < 3, IsZero(i) == i = 0).
const U64S: [u64; 9] = [0, 1, 4095, 4096, 4097, 65536, 1 << 32, 1 << 63, u64::MAX];
/// Timestamp classes, in i64 order.
const TSS: [i64; 3] = [i64::MIN, -1, i64::MAX];

fn cls(v: u64) -> i64 {
    U64S.iter().position(|x| *x == v).map(|p| p as i64).unwrap_or(-1)
}
fn ts_cls(v: i64) -> i64 {
    TSS.iter().position(|x| *x == v).map(|p| p as i64).unwrap_or(-1)
}
fn ck_pattern(id: i64) -> [u8; 32] {
    match id {
        0 => [0xAB; 32],
        1 => [0x00; 32],
        _ => [0x5A; 32],
    }
}
fn ck_id(b: &[u8; 32]) -> i64 {
    (0..3).find(|i| &ck_pattern(*i) == b).unwrap_or(-1)
}
fn idx(v: &Value, k: &str) -> usize {
    v[k].as_u64().unwrap_or(0) as usize
}

// ------------------------------------------------------------------ header
const HDR_POS: [(&str, usize); 5] = [("fo", 8), ("wo", 16), ("ws", 24), ("cp", 32), ("sq", 40)];

fn run_header(case: &Value) -> Value {
    let v = &case["v"];
    let m = &case["m"];
    let version = (u16::from(memvid_core::constants::SPEC_MAJOR) << 8) | u16::from(memvid_core::constants::SPEC_MINOR);
    let h = Header {
        magic: memvid_core::constants::MAGIC,
        version,
        footer_offset: U64S[idx(v, "fo")],
        wal_offset: U64S[idx(v, "wo")],
        wal_size: U64S[idx(v, "ws")],
        wal_checkpoint_pos: U64S[idx(v, "cp")],
        wal_sequence: U64S[idx(v, "sq")],
        toc_checksum: ck_pattern(v["ck"].as_i64().unwrap_or(0)),
    };
    let mut bytes = match HeaderCodec::encode(&h) {
        Ok(b) => b,
        Err(_) => return json!({"enc": false, "dec": {"ok": false}}),
    };
    let b = idx(m, "b");
    match m["k"].as_str().unwrap_or("none") {
        "magic" => bytes[b] ^= 0x01,
        "ver" => bytes[4 + b] ^= 0x01,
        "spec" => bytes[6 + b] ^= 0x01,
        "set" => {
            let pos = HDR_POS.iter().find(|(n, _)| Some(*n) == m["f"].as_str()).map(|x| x.1).unwrap_or(8);
            bytes[pos..pos + 8].copy_from_slice(&U64S[idx(m, "to")].to_le_bytes());
        }
        "ck" => bytes[48..80].copy_from_slice(&ck_pattern(m["to"].as_i64().unwrap_or(0))),
        "tail" => bytes[b] = 0xAA,
        _ => {}
    }
    match HeaderCodec::decode(&bytes) {
        Err(_) => json!({"enc": true, "dec": {"ok": false}}),
        Ok(d) => json!({"enc": true, "dec": {"ok": true, "v": {
            "fo": cls(d.footer_offset), "wo": cls(d.wal_offset), "ws": cls(d.wal_size), "cp": cls(d.wal_checkpoint_pos),
            "sq": cls(d.wal_sequence), "ck": ck_id(&d.toc_checksum)}},
            "guards": d.magic == memvid_core::constants::MAGIC && d.version == version}),
    }
}

// ------------------------------------------------------------------ footer
fn toc_pattern(id: i64) -> Vec<u8> {
    if id == 0 { b"toc bytes number zero".to_vec() } else { vec![0x31u8; 300] }
}
fn hash_of(id: i64) -> [u8; 32] {
    if id == 0 || id == 1 { *blake3::hash(&toc_pattern(id)).as_bytes() } else { *blake3::hash(b"unrelated").as_bytes() }
}

fn run_footer_codec(case: &Value) -> Value {
    let v = &case["v"];
    let m = &case["m"];
    let f = CommitFooter { toc_len: U64S[idx(v, "len")], toc_hash: hash_of(v["h"].as_i64().unwrap_or(0)), generation: U64S[idx(v, "gen")] };
    let mut bytes = f.encode().to_vec();
    match m["k"].as_str().unwrap_or("none") {
        "magic" => bytes[idx(m, "b")] ^= 0x01,
        "size" => bytes.resize(idx(m, "to"), 0x4D),
        "set" => match m["f"].as_str().unwrap_or("") {
            "len" => bytes[8..16].copy_from_slice(&U64S[idx(m, "to")].to_le_bytes()),
            "gen" => bytes[48..56].copy_from_slice(&U64S[idx(m, "to")].to_le_bytes()),
            _ => bytes[16..48].copy_from_slice(&hash_of(m["to"].as_i64().unwrap_or(0))),
        },
        _ => {}
    }
    let toc = toc_pattern(case["toc"].as_i64().unwrap_or(0));
    match CommitFooter::decode(&bytes) {
        None => json!({"dec": {"ok": false}, "hash_matches": false, "size": bytes.len() == FOOTER_SIZE}),
        Some(d) => {
            let h = (0..3).find(|i| hash_of(*i) == d.toc_hash).unwrap_or(-1);
            json!({"dec": {"ok": true, "v": {"len": cls(d.toc_len), "gen": cls(d.generation), "h": h}},
                   "hash_matches": d.hash_matches(&toc), "size": bytes.len() == FOOTER_SIZE})
        }
    }
}

// ------------------------------------------------------------------ TOC
/// A TOC as the real writer produces it: three documents (one with tags and a URI), a ticket, a binding, one commit.
fn base_toc() -> &'static Toc {
    static BASE: OnceLock<Toc> = OnceLock::new();
    BASE.get_or_init(|| {
        let dir = crate::util::scratch_dir("codec");
        let p = dir.path().join("m.mv2");
        let mut m = Memvid::create(&p).expect("create");
        for i in 0..3u32 {
            let mut o = PutOptions::default();
            o.uri = Some(format!("mv2://codec/{i}"));
            o.title = Some(format!("doc {i}"));
            o.timestamp = Some(1_700_000_000 + i64::from(i) * 1000);
            o.extraction_budget_ms = 0;
            if i == 1 {
                o.tags = vec!["alpha".into(), "beta".into()];
            }
            m.put_bytes_with_options(format!("codec sample document number {i} with some words in it").as_bytes(), o).expect("put");
        }
        let b: memvid_core::types::MemoryBinding = serde_json::from_value(json!({"memory_id": "00000000-0000-4000-8000-000000000001",
            "memory_name": "memory 1", "bound_at": "2026-01-01T00:00:00Z", "api_url": "https://verif.invalid"})).expect("binding");
        let t = Ticket { issuer: "verif".into(), seq_no: 7, expires_in_secs: 0, capacity_bytes: Some(1 << 40) };
        m.bind_memory(b, t).expect("bind");
        m.commit().expect("commit");
        drop(m);
        let bytes = std::fs::read(&p).expect("read");
        let s = memvid_core::footer::find_last_valid_footer(&bytes).expect("footer");
        Toc::decode(s.toc_bytes).expect("toc")
    })
}

fn stamp(mut t: Toc) -> Toc {
    t.toc_checksum = [0u8; 32];
    let bytes = t.encode().expect("encode");
    t.toc_checksum = Toc::calculate_checksum(&bytes);
    t
}

fn first_diff(a: &[u8], b: &[u8]) -> Option<usize> {
    a.iter().zip(b.iter()).position(|(x, y)| x != y)
}

fn run_toc(case: &Value) -> Value {
    let v = &case["v"];
    let m = &case["m"];
    let has = |o: &str| v["opts"].as_array().map(|a| a.iter().any(|x| x.as_str() == Some(o))).unwrap_or(false);
    let mut t = base_toc().clone();
    t.frames.truncate(idx(v, "nf"));
    if !has("time") {
        t.time_index = None;
    }
    if !has("ticket") {
        t.ticket_ref.seq_no = 0;
        t.ticket_ref.capacity_bytes = 0;
        t.ticket_ref.issuer = String::new();
    }
    if !has("binding") {
        t.memory_binding = None;
    }
    if !has("sketch") {
        t.sketch_track = None;
    }
    let features = json!({"time": t.time_index.is_some(), "binding": t.memory_binding.is_some(), "sketch": t.sketch_track.is_some(),
                          "ticket": t.ticket_ref.seq_no, "frames": t.frames.len()});
    let t = if v["ck"].as_bool().unwrap_or(true) { stamp(t) } else { let mut x = t; x.toc_checksum = [0x77; 32]; x };
    let good = t.encode().expect("encode");
    let mut bytes = good.clone();
    let n = bytes.len();
    match m["k"].as_str().unwrap_or("none") {
        "trail" => bytes.extend(std::iter::repeat(idx(m, "b") as u8).take(idx(m, "to"))),
        "cut" => bytes.truncate(n - idx(m, "to")),
        "flipck" => bytes[n - 32 + idx(m, "b")] ^= 0x01,
        "flip" => {
            // the byte position of a value field, found by encoding a second value that differs in that field only
            let mut other = t.clone();
            match m["f"].as_str().unwrap_or("") {
                "version" => other.toc_version ^= 1,
                "merkle" => other.merkle_root[0] ^= 1,
                _ => other.frames[0].timestamp ^= 1,
            }
            let ob = other.encode().expect("encode");
            let pos = first_diff(&good, &ob).expect("field position");
            bytes[pos] ^= 0x01;
        }
        _ => {}
    }
    match Toc::decode(&bytes) {
        Err(_) => json!({"dec": false, "same": false, "verify": false, "features": features, "len": n}),
        Ok(d) => {
            // "same value": the canonical encoding of what was decoded is the encoding that was handed out
            let same = d.encode().map(|e| e == good).unwrap_or(false);
            json!({"dec": true, "same": same, "verify": d.verify_checksum().is_ok(), "features": features, "len": n,
                   "frames": d.frames.len()})
        }
    }
}

// ------------------------------------------------------------------ time index
fn run_time(case: &Value) -> Value {
    let m = &case["m"];
    let mut entries: Vec<TimeIndexEntry> = case["v"]["es"].as_array().map(|a| a.iter().map(|p| {
        TimeIndexEntry::new(TSS[p[0].as_u64().unwrap_or(0) as usize], p[1].as_u64().unwrap_or(0))
    }).collect()).unwrap_or_default();
    let mut cur = Cursor::new(vec![0xEEu8; 7]);
    cur.set_position(7);
    let (offset, length, checksum) = time_index_append(&mut cur, &mut entries).expect("append");
    let mut buf = cur.into_inner();
    let off = offset as usize;
    let n = entries.len() as i64;
    let to = m["to"].as_i64().unwrap_or(0);
    let mut length = length as i64;
    let ent = |k: i64| off + 12 + 16 * (k as usize - 1);
    match m["k"].as_str().unwrap_or("none") {
        "magic" => buf[off + idx(m, "b")] ^= 0x01,
        "count" => buf[off + 4..off + 12].copy_from_slice(&((n + to) as u64).to_le_bytes()),
        "length" => length += to,
        "both" => {
            buf[off + 4..off + 12].copy_from_slice(&((n + to) as u64).to_le_bytes());
            length += 16 * to;
        }
        "swap" => {
            let (a, b) = (ent(to), ent(to + 1));
            for i in 0..16 {
                buf.swap(a + i, b + i);
            }
        }
        "bump" => {
            let p = ent(to) + 8;
            let id = u64::from_le_bytes(buf[p..p + 8].try_into().unwrap()) + 2;
            buf[p..p + 8].copy_from_slice(&id.to_le_bytes());
        }
        _ => {}
    }
    let mut rd = Cursor::new(buf);
    match time_index_read(&mut rd, offset, length as u64) {
        Err(_) => json!({"dec": {"ok": false}, "checksum_ok": false, "offset": offset}),
        Ok(es) => json!({"dec": {"ok": true, "v": es.iter().map(|e| json!([ts_cls(e.timestamp), e.frame_id])).collect::<Vec<_>>()},
                         "checksum_ok": time_index_checksum(&es) == checksum, "offset": offset}),
    }
}

pub fn run_case(case: &Value) -> Value {
    let r = catch_unwind(AssertUnwindSafe(|| match case["codec"].as_str().unwrap_or("") {
        "header" => run_header(case),
        "footer" => run_footer_codec(case),
        "toc" => run_toc(case),
        "time" => run_time(case),
        _ => json!({"unknown": true}),
    }));
    r.unwrap_or_else(|_| json!({"panic": true}))
}
