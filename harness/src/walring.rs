//! `walring` engine: the real `EmbeddedWal` against WalRing / WalAbs.
use crate::util::{Rng, scratch_dir};
use memvid_core::types::Header;
use memvid_core::{EmbeddedWal, MemvidError};
use serde_json::{Value, json};
use std::collections::HashMap;
use std::fs::File;
use std::io::Write;

const WAL_OFFSET: u64 = 4096;

fn header_for(size: u64) -> Header {
    Header {
        magic: *b"MV2\0",
        version: 0x0201,
        footer_offset: 0,
        wal_offset: WAL_OFFSET,
        wal_size: size,
        wal_checkpoint_pos: 0,
        wal_sequence: 0,
        toc_checksum: [0u8; 32],
    }
}

fn payload_for(seq_hint: u64, len: usize) -> Vec<u8> {
    // never produces an all-zero prefix: bytes are in 1..=251
    (0..len)
        .map(|i| (((seq_hint as usize).wrapping_mul(31).wrapping_add(i)) % 251 + 1) as u8)
        .collect()
}

struct Sut {
    _dir: tempfile::TempDir,
    file: File,
    header: Header,
    wal: Option<EmbeddedWal>,
    payloads: HashMap<u64, Vec<u8>>,
    next_hint: u64,
}

fn classify_err(e: &MemvidError) -> String {
    match e {
        MemvidError::CheckpointFailed { reason } => {
            if reason.contains("too small") {
                "small".into()
            } else if reason.contains("full") {
                "full".into()
            } else if reason.contains("empty") {
                "empty".into()
            } else {
                format!("err:{reason}")
            }
        }
        MemvidError::WalCorruption { .. } => "corrupt".into(),
        other => format!("err:{other}"),
    }
}

impl Sut {
    fn new(region: u64) -> Sut {
        let dir = scratch_dir("wal");
        let path = dir.path().join("wal.bin");
        let file = std::fs::OpenOptions::new()
            .read(true)
            .write(true)
            .create(true)
            .truncate(true)
            .open(&path)
            .expect("open wal file");
        file.set_len(WAL_OFFSET + region).expect("set_len");
        let header = header_for(region);
        let wal = EmbeddedWal::open(&file, &header).ok();
        Sut { _dir: dir, file, header, wal, payloads: HashMap::new(), next_hint: 1 }
    }

    /// Executes one call; returns (res, seq returned by append, recs of pending/reopen, payloads_ok)
    fn step(&mut self, op: &str, len: u64) -> (String, u64, Vec<(u64, u64)>, bool) {
        let mut recs = Vec::new();
        let mut pay_ok = true;
        let mut ret = 0u64;
        let res = match op {
            "append" => {
                let hint = self.next_hint;
                self.next_hint += 1;
                let p = payload_for(hint, len as usize);
                match self.wal.as_mut().map(|w| w.append_entry(&p)) {
                    Some(Ok(s)) => {
                        ret = s;
                        self.payloads.insert(s, p);
                        "ok".to_string()
                    }
                    Some(Err(e)) => classify_err(&e),
                    None => "nohandle".into(),
                }
            }
            "checkpoint" => {
                let hdr = &mut self.header;
                match self.wal.as_mut().map(|w| w.record_checkpoint(hdr)) {
                    Some(Ok(())) => "ok".into(),
                    Some(Err(e)) => classify_err(&e),
                    None => "nohandle".into(),
                }
            }
            "pending" => match self.wal.as_mut().map(|w| w.pending_records()) {
                Some(Ok(rs)) => {
                    for r in rs {
                        if self.payloads.get(&r.sequence) != Some(&r.payload) {
                            pay_ok = false;
                        }
                        recs.push((r.sequence, r.payload.len() as u64));
                    }
                    "ok".into()
                }
                Some(Err(e)) => classify_err(&e),
                None => "nohandle".into(),
            },
            "reopen" => match EmbeddedWal::open(&self.file, &self.header) {
                Ok(w) => {
                    self.wal = Some(w);
                    "ok".into()
                }
                Err(e) => classify_err(&e),
            },
            "stats" => "ok".into(),
            other => format!("err:unknown op {other}"),
        };
        (res, ret, recs, pay_ok)
    }

    fn stats(&self) -> (u64, u64, u64, bool, u64) {
        match &self.wal {
            Some(w) => {
                let s = w.stats();
                (s.pending_bytes, s.sequence, s.appends_since_checkpoint, w.should_checkpoint(), s.region_size)
            }
            None => (0, 0, 0, false, 0),
        }
    }
}

/// spec -> impl: replay TLC-generated paths (transition tour of the WalRing
/// state graph) on the real EmbeddedWal at `scale` bytes per model cell.
/// args: <paths.json> <out.json>
pub fn replay(args: &[String]) -> i32 {
    let input: Value = serde_json::from_str(&std::fs::read_to_string(&args[0]).expect("read paths")).expect("json");
    let scale = input["scale"].as_u64().unwrap_or(16);
    let r_cells = input["R"].as_u64().expect("R");
    let paths = input["paths"].as_array().expect("paths");
    let mut mismatches = Vec::new();
    let mut steps_run = 0u64;
    for (pi, path) in paths.iter().enumerate() {
        let mut sut = Sut::new(r_cells * scale);
        for (si, st) in path.as_array().expect("path").iter().enumerate() {
            let op = st["op"].as_str().unwrap_or("");
            let arg = st["arg"].as_u64().unwrap_or(0);
            let (res, ret, recs, pay_ok) = sut.step(op, arg * scale);
            steps_run += 1;
            let (pb, seq, apc, due, _r) = sut.stats();
            let exp_recs: Vec<(u64, u64)> = st["recs"]
                .as_array()
                .map(|a| {
                    a.iter()
                        .map(|p| (p[0].as_u64().unwrap_or(0), p[1].as_u64().unwrap_or(0) * scale))
                        .collect()
                })
                .unwrap_or_default();
            let mut diffs = Vec::new();
            if res != st["res"].as_str().unwrap_or("") {
                diffs.push(format!("res: spec={} impl={}", st["res"], res));
            }
            if op == "append" && res == "ok" && ret != st["seq"].as_u64().unwrap_or(0) {
                diffs.push(format!("returned seq: spec={} impl={}", st["seq"], ret));
            }
            if op == "pending" && res == "ok" {
                if recs != exp_recs {
                    diffs.push(format!("pending records: spec={:?} impl={:?}", exp_recs, recs));
                }
                if !pay_ok {
                    diffs.push("a returned record's payload differs from what was appended".into());
                }
            }
            if pb != st["pb"].as_u64().unwrap_or(0) * scale {
                diffs.push(format!("pending_bytes: spec={} impl={}", st["pb"].as_u64().unwrap_or(0) * scale, pb));
            }
            if seq != st["seq"].as_u64().unwrap_or(0) {
                diffs.push(format!("sequence: spec={} impl={}", st["seq"], seq));
            }
            if apc != st["apc"].as_u64().unwrap_or(0) {
                diffs.push(format!("appends_since_checkpoint: spec={} impl={}", st["apc"], apc));
            }
            if due != st["due"].as_bool().unwrap_or(false) {
                diffs.push(format!("should_checkpoint: spec={} impl={}", st["due"], due));
            }
            if !diffs.is_empty() {
                let prefix: Vec<Value> = path.as_array().unwrap()[..=si]
                    .iter()
                    .map(|s| json!({"op": s["op"], "arg": s["arg"]}))
                    .collect();
                mismatches.push(json!({"path": pi, "step": si, "op": op, "arg": arg, "diffs": diffs, "calls": prefix, "scale": scale, "R": r_cells}));
                break;
            }
        }
    }
    let out = json!({"paths": paths.len(), "steps": steps_run, "mismatches": mismatches});
    std::fs::write(&args[1], serde_json::to_string(&out).unwrap()).expect("write out");
    0
}

/// impl -> spec: seeded random runs of the real EmbeddedWal on realistic and
/// awkward region sizes; one ND-JSON event per call for Trace_WalAbs.
/// args: <seed> <runs> <steps> <out.ndjson>
pub fn trace(args: &[String]) -> i32 {
    let seed: u64 = args[0].parse().expect("seed");
    let runs: u64 = args[1].parse().expect("runs");
    let steps: u64 = args[2].parse().expect("steps");
    let mut out = std::io::BufWriter::new(File::create(&args[3]).expect("create"));
    let mut rng = Rng::new(seed);
    for run in 0..runs {
        let region = match rng.below(6) {
            0 => 200,
            1 => 4096,
            2 => 65536,
            3 => 96 + rng.below(400),
            4 => 1000 + rng.below(3000),
            _ => 48 * (2 + rng.below(20)),
        };
        let mut sut = Sut::new(region);
        writeln!(out, "{}", json!({"ev":"reset","run":run,"R":region,"len":0,"res":"ok","ret":0,"recs":[],"pb":0,"seq":0,"apc":0,"due":false})).unwrap();
        // shadow of the head position, only used to aim lengths at the region end
        let mut used: u64 = 0;
        for _ in 0..steps {
            let c = rng.below(100);
            let (op, len) = if c < 62 {
                let room = region.saturating_sub(used);
                let len = match rng.below(10) {
                    0 => room.saturating_sub(48),            // ends exactly at the region end
                    1 => room.saturating_sub(48 + 1 + rng.below(47)), // stops inside the last header
                    2 => room.saturating_sub(96),            // exactly one header left
                    3 => room.saturating_sub(47),            // one byte too long
                    4 => 0,
                    5 => region,                              // too small
                    6 => 1 + rng.below(8),
                    _ => 1 + rng.below((region / 3).max(2)),
                };
                ("append", len)
            } else if c < 78 {
                ("checkpoint", 0)
            } else if c < 88 {
                ("pending", 0)
            } else if c < 96 {
                ("reopen", 0)
            } else {
                ("stats", 0)
            };
            let (res, ret, recs, pay_ok) = sut.step(op, len);
            let (pb, seq, apc, due, _r) = sut.stats();
            if op == "append" && res == "ok" {
                used = if used + 48 + len > region { 48 + len } else { used + 48 + len };
            }
            let recs_json: Vec<Value> = recs.iter().map(|(s, l)| json!([s, l])).collect();
            writeln!(out, "{}", json!({"ev":op,"run":run,"R":region,"len":len,"res":res,"ret":ret,"recs":recs_json,"pay_ok":pay_ok,"pb":pb,"seq":seq,"apc":apc,"due":due})).unwrap();
        }
    }
    out.flush().unwrap();
    0
}
