use std::path::PathBuf;

/// Scratch directory on tmpfs (fsync dominates on the root disk).
pub fn scratch_dir(tag: &str) -> tempfile::TempDir {
    let base = std::env::var("MVH_TMP").unwrap_or_else(|_| {
        if std::path::Path::new("/dev/shm").is_dir() {
            "/dev/shm".to_string()
        } else {
            std::env::temp_dir().to_string_lossy().to_string()
        }
    });
    tempfile::Builder::new()
        .prefix(&format!("mvh-{tag}-"))
        .tempdir_in(base)
        .expect("scratch dir")
}

#[allow(dead_code)]
pub fn path_in(dir: &tempfile::TempDir, name: &str) -> PathBuf {
    dir.path().join(name)
}

/// Small deterministic PRNG (splitmix64) so that every random choice derives
/// from VERIF_SEED and is identical across platforms.
pub struct Rng(pub u64);
impl Rng {
    pub fn new(seed: u64) -> Self {
        Rng(seed ^ 0x9E37_79B9_7F4A_7C15)
    }
    pub fn next(&mut self) -> u64 {
        self.0 = self.0.wrapping_add(0x9E37_79B9_7F4A_7C15);
        let mut z = self.0;
        z = (z ^ (z >> 30)).wrapping_mul(0xBF58_476D_1CE4_E5B9);
        z = (z ^ (z >> 27)).wrapping_mul(0x94D0_49BB_1331_11EB);
        z ^ (z >> 31)
    }
    pub fn below(&mut self, n: u64) -> u64 {
        if n == 0 { 0 } else { self.next() % n }
    }
    #[allow(dead_code)]
    pub fn pick<'a, T>(&mut self, xs: &'a [T]) -> &'a T {
        &xs[self.below(xs.len() as u64) as usize]
    }
}

/// TLC's JSON reader rejects `null`: drop null-valued keys, turn nulls in arrays into -1.
pub fn strip_nulls(v: serde_json::Value) -> serde_json::Value {
    use serde_json::Value;
    match v {
        Value::Object(m) => Value::Object(
            m.into_iter().filter(|(_, x)| !x.is_null()).map(|(k, x)| (k, strip_nulls(x))).collect(),
        ),
        Value::Array(a) => Value::Array(
            a.into_iter().map(|x| if x.is_null() { Value::from(-1) } else { strip_nulls(x) }).collect(),
        ),
        other => other,
    }
}

/// Puts a marker line into the fsrec log when the recorder shim is loaded (no-op otherwise).
pub fn fsrec_mark(text: &str) {
    use std::ffi::CString;
    unsafe {
        let sym = libc::dlsym(libc::RTLD_DEFAULT, b"fsrec_mark\0".as_ptr() as *const libc::c_char);
        if !sym.is_null() {
            let f: extern "C" fn(*const libc::c_char) = std::mem::transmute(sym);
            if let Ok(c) = CString::new(text.replace('"', "'")) {
                f(c.as_ptr());
            }
        }
    }
}
