//! `lock` engine executor (C17): steps several handles of ONE path through a
//! schedule (a path of the Mv2Lock state graph, or a seeded random schedule) and
//! records, after every step, what an independent observer can see: the result
//! of the call, whether a fresh non-blocking flock probe on the path finds it
//! free, which handles are writable, and how many frames a handle shows.
//! flock() locks belong to the open file description, so two handles in one
//! process conflict exactly like two processes; `lock-probe` is the
//! cross-process variant of the probe.
use crate::util::scratch_dir;
use memvid_core::types::{DoctorOptions, PutOptions};
use memvid_core::{Memvid, MemvidError};
use serde_json::{Value, json};
use std::collections::BTreeMap;
use std::io::Write;
use std::os::unix::io::AsRawFd;
use std::panic::{AssertUnwindSafe, catch_unwind};
use std::path::Path;

/// "free" | "shared" (only shared locks held) | "busy" (an exclusive lock is held)
pub fn probe(path: &Path) -> &'static str {
    let f = match std::fs::OpenOptions::new().read(true).write(true).open(path) {
        Ok(f) => f,
        Err(_) => return "missing",
    };
    let fd = f.as_raw_fd();
    unsafe {
        if libc::flock(fd, libc::LOCK_EX | libc::LOCK_NB) == 0 {
            libc::flock(fd, libc::LOCK_UN);
            return "free";
        }
        if libc::flock(fd, libc::LOCK_SH | libc::LOCK_NB) == 0 {
            libc::flock(fd, libc::LOCK_UN);
            return "shared";
        }
    }
    "busy"
}

fn err_name(e: &MemvidError) -> String {
    let d = format!("{e:?}");
    d.chars().take_while(|c| c.is_alphanumeric() || *c == '_').collect()
}

fn res_of<T>(r: std::thread::Result<Result<T, MemvidError>>) -> (Value, Option<T>) {
    match r {
        Ok(Ok(v)) => (json!({"ok": true}), Some(v)),
        Ok(Err(e)) => (json!({"ok": false, "err": err_name(&e), "msg": format!("{e}").chars().take(120).collect::<String>()}), None),
        Err(_) => (json!({"ok": false, "panic": true}), None),
    }
}

fn cross_probe(path: &Path) -> String {
    let exe = std::env::current_exe().expect("exe");
    let out = std::process::Command::new(exe).arg("lock-probe").arg(path).output();
    match out {
        Ok(o) => String::from_utf8_lossy(&o.stdout).trim().to_string(),
        Err(_) => "error".to_string(),
    }
}

/// args: <scenarios.json> <out.ndjson>
pub fn run(args: &[String]) -> i32 {
    let input: Value = serde_json::from_str(&std::fs::read_to_string(&args[0]).expect("read")).expect("json");
    let mut out = std::io::BufWriter::new(std::fs::File::create(&args[1]).expect("create"));
    std::panic::set_hook(Box::new(|_| {}));
    let cross = input["cross_process"].as_bool().unwrap_or(false);
    for sc in input["scenarios"].as_array().expect("scenarios") {
        let dir = scratch_dir("lock");
        let path = dir.path().join("m.mv2");
        // the file exists and is closed before the schedule starts (inode 1 of the model)
        drop(Memvid::create(&path).expect("create"));
        let mut hs: BTreeMap<String, Memvid> = BTreeMap::new();
        let mut nput = 0u64;
        writeln!(out, "{}", json!({"ev": "reset", "run": sc["id"], "n": 0})).unwrap();
        for (n, op) in sc["ops"].as_array().expect("ops").iter().enumerate() {
            let p = op["p"].as_str().unwrap_or("p1").to_string();
            let name = op["op"].as_str().unwrap_or("");
            let mut ev = name.to_string();
            let mut doctor_changed: Option<bool> = None;
            let res = match name {
                "open" => {
                    let (r, m) = res_of(catch_unwind(AssertUnwindSafe(|| memvid_core::verif::try_open(&path))));
                    if let Some(m) = m {
                        hs.insert(p.clone(), m);
                    }
                    r
                }
                "open_blocking" => {
                    // the public entry point (retries a busy lock for ~10 s)
                    ev = "open".to_string();
                    let (r, m) = res_of(catch_unwind(AssertUnwindSafe(|| Memvid::open(&path))));
                    if let Some(m) = m {
                        hs.insert(p.clone(), m);
                    }
                    r
                }
                "open_ro" => {
                    // open_read_only retries a busy lock for ~10 s: when the independent probe
                    // finds an exclusive lock the call is not made (unless asked) and the event says so
                    if probe(&path) == "busy" && !op["really"].as_bool().unwrap_or(false) {
                        json!({"ok": false, "err": "Lock", "skipped": true})
                    } else {
                        let (r, m) = res_of(catch_unwind(AssertUnwindSafe(|| Memvid::open_read_only(&path))));
                        if let Some(m) = m {
                            hs.insert(p.clone(), m);
                        }
                        r
                    }
                }
                "downgrade" => match hs.get_mut(&p) {
                    None => json!({"ok": false, "err": "NoHandle"}),
                    Some(m) => res_of(catch_unwind(AssertUnwindSafe(|| m.downgrade_to_shared()))).0,
                },
                "wput" => match hs.get_mut(&p) {
                    // a put whatever the handle's mode: on a read-only handle it upgrades the lock first (up to ~10 s when blocked)
                    None => json!({"ok": false, "err": "NoHandle"}),
                    Some(m) => {
                        nput += 1;
                        let mut o = PutOptions::default();
                        o.uri = Some(format!("mv2://t{nput}"));
                        o.timestamp = Some(nput as i64);
                        o.extraction_budget_ms = 0;
                        let body = format!("token{nput} lock engine document");
                        let r = res_of(catch_unwind(AssertUnwindSafe(|| m.put_bytes_with_options(body.as_bytes(), o)))).0;
                        if r["ok"] != json!(true) {
                            nput -= 1;
                        }
                        r
                    }
                },
                "close" if !hs.contains_key(&p) => json!({"ok": false, "err": "NoHandle"}),
                "put" | "commit" | "inplace" | "vacuum" if hs.get(&p).is_some_and(|m| m.is_read_only()) => {
                    // a mutating call on a read-only handle would upgrade its lock (blocking): not part of the schedules
                    json!({"ok": false, "err": "NoHandle"})
                }
                "put" => match hs.get_mut(&p) {
                    None => json!({"ok": false, "err": "NoHandle"}),
                    Some(m) => {
                        nput += 1;
                        let mut o = PutOptions::default();
                        o.uri = Some(format!("mv2://t{nput}"));
                        o.timestamp = Some(nput as i64);
                        o.extraction_budget_ms = 0;
                        let body = format!("token{nput} lock engine document");
                        res_of(catch_unwind(AssertUnwindSafe(|| m.put_bytes_with_options(body.as_bytes(), o)))).0
                    }
                },
                "commit" => match hs.get_mut(&p) {
                    None => json!({"ok": false, "err": "NoHandle"}),
                    Some(m) => res_of(catch_unwind(AssertUnwindSafe(|| m.commit()))).0,
                },
                "inplace" => match hs.get_mut(&p) {
                    // in-place maintenance that keeps the inode: vacuum of a clean handle / a ticket
                    None => json!({"ok": false, "err": "NoHandle"}),
                    Some(m) => {
                        let t = memvid_core::types::Ticket {
                            issuer: "lock".into(),
                            seq_no: 100 + n as i64,
                            expires_in_secs: 0,
                            capacity_bytes: None,
                        };
                        res_of(catch_unwind(AssertUnwindSafe(|| m.apply_ticket(t)))).0
                    }
                },
                "vacuum" => match hs.get_mut(&p) {
                    None => json!({"ok": false, "err": "NoHandle"}),
                    Some(m) => res_of(catch_unwind(AssertUnwindSafe(|| m.vacuum()))).0,
                },
                "doctor" => {
                    let o = DoctorOptions { rebuild_time_index: true, rebuild_lex_index: false, rebuild_vec_index: false,
                                            vacuum: false, dry_run: false, quiet: true };
                    let before = std::fs::read(&path).map(|b| *blake3::hash(&b).as_bytes()).ok();
                    let r = catch_unwind(AssertUnwindSafe(|| Memvid::doctor(&path, o)));
                    let after = std::fs::read(&path).map(|b| *blake3::hash(&b).as_bytes()).ok();
                    doctor_changed = Some(before != after);
                    match r {
                        // a doctor that could not get exclusive access reports status Failed
                        Ok(Ok(rep)) if format!("{:?}", rep.status) == "Failed" => json!({"ok": false, "err": "Lock", "status": "Failed"}),
                        Ok(Ok(rep)) => json!({"ok": true, "status": format!("{:?}", rep.status)}),
                        Ok(Err(e)) => json!({"ok": false, "err": err_name(&e), "msg": format!("{e}").chars().take(120).collect::<String>()}),
                        Err(pn) => json!({"ok": false, "err": "Panic", "panic": pn.downcast_ref::<String>().cloned()
                            .or_else(|| pn.downcast_ref::<&str>().map(|s| s.to_string())).unwrap_or_default().chars().take(160).collect::<String>()}),
                    }
                }
                "close" => {
                    let m = hs.remove(&p);
                    match catch_unwind(AssertUnwindSafe(move || drop(m))) {
                        Ok(()) => json!({"ok": true}),
                        Err(_) => json!({"ok": false, "panic": true}),
                    }
                }
                other => json!({"ok": false, "err": format!("UnknownOp:{other}")}),
            };
            let pr = probe(&path);
            let mut handles = serde_json::Map::new();
            for (k, m) in hs.iter() {
                handles.insert(k.clone(), json!({"ro": m.is_read_only(), "count": m.frame_count(),
                                                 "nfid": m.next_frame_id()}));
            }
            let mut obs = json!({"probe": pr, "handles": handles,
                                 "writers": hs.values().filter(|m| !m.is_read_only()).count()});
            if let Some(c) = doctor_changed {
                obs["file_changed"] = json!(c);
            }
            if cross {
                obs["xprobe"] = json!(cross_probe(&path));
            }
            let dirl: Vec<String> = std::fs::read_dir(dir.path()).map(|rd| rd.filter_map(|e| e.ok())
                .map(|e| e.file_name().to_string_lossy().to_string()).collect()).unwrap_or_default();
            obs["dir"] = json!(dirl);
            writeln!(out, "{}", json!({"ev": ev, "run": sc["id"], "n": n + 1, "p": p, "res": res, "obs": obs})).unwrap();
        }
        hs.clear();
    }
    out.flush().unwrap();
    0
}

/// args: <path>  — prints free|shared|busy|missing (used from another process)
pub fn probe_cmd(args: &[String]) -> i32 {
    println!("{}", probe(Path::new(&args[0])));
    0
}
