//! `disk` engine probe: given directories reconstructed offline from a recorded run (the state after a
//! process crash or a power loss at some file operation), runs the REAL recovery path on each and
//! records what it shows: result of Memvid::open, the projected frame table, a second open, verify,
//! and (on a copy) doctor followed by open.  Everything runs under catch_unwind; a watchdog turns a hang
//! into a recorded result.  No oracle here: TLC judges the observations (Trace_Mv2Core, TCrash).
use crate::core::{Ctx, exec};
use serde_json::{Value, json};
use std::io::{BufRead, Write};
use std::path::Path;

fn copy_dir(src: &Path, dst: &Path) {
    std::fs::create_dir_all(dst).expect("mkdir");
    if let Ok(rd) = std::fs::read_dir(src) {
        for e in rd.flatten() {
            let _ = std::fs::copy(e.path(), dst.join(e.file_name()));
        }
    }
}

fn frames_key(obs: &Value) -> Value {
    // what "changes no frame" compares: id, uri, status, payload id, supersede links
    json!(obs["frames"].as_array().map(|a| a.iter().map(|f| json!([f["id"], f["uri"], f["st"], f["pay"], f["sup"], f["supby"], f["emb"]])).collect::<Vec<_>>()))
}

/// args: <registry.json> <list.txt: one "<tag>\t<dir>\t<flags>" per line> <out.ndjson>
pub fn probe(args: &[String]) -> i32 {
    let registry: Value = serde_json::from_str(&std::fs::read_to_string(&args[0]).expect("registry")).expect("json");
    let list = std::io::BufReader::new(std::fs::File::open(&args[1]).expect("list"));
    let mut out = std::io::BufWriter::new(std::fs::File::create(&args[2]).expect("out"));
    std::panic::set_hook(Box::new(|_| {}));
    let watchdog_s: u64 = std::env::var("MVH_WATCHDOG_S").ok().and_then(|v| v.parse().ok()).unwrap_or(40);
    // watchdog: a single state must not take longer than this
    let deadline = std::sync::Arc::new(std::sync::atomic::AtomicU64::new(0));
    {
        let d = deadline.clone();
        std::thread::spawn(move || loop {
            std::thread::sleep(std::time::Duration::from_millis(500));
            let t = d.load(std::sync::atomic::Ordering::SeqCst);
            if t != 0 {
                let now = std::time::SystemTime::now().duration_since(std::time::UNIX_EPOCH).map(|x| x.as_secs()).unwrap_or(0);
                if now > t {
                    eprintln!("HANG");
                    std::process::exit(86);
                }
            }
        });
    }
    for line in list.lines() {
        let line = line.expect("line");
        let parts: Vec<&str> = line.split('\t').collect();
        if parts.len() < 2 {
            continue;
        }
        let (tag, dir) = (parts[0], Path::new(parts[1]));
        let flags = parts.get(2).copied().unwrap_or("");
        let now = std::time::SystemTime::now().duration_since(std::time::UNIX_EPOCH).map(|x| x.as_secs()).unwrap_or(0);
        deadline.store(now + watchdog_s, std::sync::atomic::Ordering::SeqCst);
        // progress marker so that a hang can be attributed
        writeln!(out, "{}", json!({"tag": tag, "stage": "begin"})).unwrap();
        out.flush().unwrap();
        let mut ev = json!({"tag": tag, "stage": "done"});
        let has_file = dir.join("m.mv2").exists();
        ev["has_file"] = json!(has_file);
        ev["dir"] = json!(std::fs::read_dir(dir).map(|rd| { let mut v: Vec<String> = rd.flatten().map(|e| e.file_name().to_string_lossy().to_string()).collect(); v.sort(); v }).unwrap_or_default());
        // (a) doctor on a copy, then open the copy
        if flags.contains('d') && has_file {
            let td = crate::util::scratch_dir("dprobe");
            copy_dir(dir, td.path());
            let p = td.path().join("m.mv2");
            let mut c = Ctx::at(td, p, &registry);
            let (r1, _) = exec(&mut c, &json!({"op": "doctor"}));
            let (v1, _) = exec(&mut c, &json!({"op": "verify"}));
            let (r2, _) = exec(&mut c, &json!({"op": "doctor"}));
            let (o1, _) = exec(&mut c, &json!({"op": "open"}));
            let obs = c.observe(true);
            ev["doctor"] = json!({"first": r1, "verify": v1, "second": r2, "open": o1, "obs": obs});
        }
        // (b) read-only open + verify of the crash-left file (must not modify it)
        if flags.contains('r') && has_file {
            let td = crate::util::scratch_dir("rprobe");
            copy_dir(dir, td.path());
            let p = td.path().join("m.mv2");
            let before = std::fs::read(&p).ok();
            let mut c = Ctx::at(td, p.clone(), &registry);
            let (o, _) = exec(&mut c, &json!({"op": "open_ro"}));
            let obs = c.observe(true);
            let (cl, _) = exec(&mut c, &json!({"op": "close"}));
            let (v, _) = exec(&mut c, &json!({"op": "verify"}));
            let after = std::fs::read(&p).ok();
            ev["ro"] = json!({"open": o, "obs": obs, "close": cl, "verify": v, "unchanged": before == after});
        }
        // (c) the recovery itself: open, observe, close, open again, observe
        {
            let td = crate::util::scratch_dir("cprobe");
            copy_dir(dir, td.path());
            let p = td.path().join("m.mv2");
            let mut c = Ctx::at(td, p, &registry);
            let (o1, _) = exec(&mut c, &json!({"op": "open"}));
            let obs1 = c.observe(true);
            let (tl, _) = exec(&mut c, &json!({"op": "timeline"}));
            let (c1, _) = exec(&mut c, &json!({"op": "close"}));
            let (o2, _) = exec(&mut c, &json!({"op": "open"}));
            let obs2 = c.observe(true);
            let (c2, _) = exec(&mut c, &json!({"op": "close"}));
            let (v, _) = exec(&mut c, &json!({"op": "verify"}));
            ev["res"] = o1;
            ev["second_same"] = json!(frames_key(&obs1) == frames_key(&obs2));
            ev["second"] = json!({"open": o2, "close": c2, "count": obs2["count"]});
            ev["close"] = c1;
            ev["timeline"] = tl;
            ev["verify"] = v;
            ev["obs"] = obs1;
        }
        deadline.store(0, std::sync::atomic::Ordering::SeqCst);
        writeln!(out, "{}", crate::util::strip_nulls(ev)).unwrap();
        out.flush().unwrap();
    }
    0
}

/// `mvh reseal <file>`: makes an edited image self-consistent again the way an adversary would - recomputes the TOC's own
/// checksum (last 32 bytes of the TOC, hashed with the field zeroed), the footer's hash of the TOC bytes and the header's
/// copy of the TOC checksum - so that the edit is reached by the decoders instead of being stopped by a checksum.
/// Structure only (offsets from the header / footer layout); no memvid code is involved.
pub fn reseal(args: &[String]) -> i32 {
    let mut b = match std::fs::read(&args[0]) {
        Ok(b) => b,
        Err(_) => return 2,
    };
    let n = b.len();
    if n < 4096 + 56 || &b[n - 56..n - 48] != b"MV2FOOT!" {
        return 3;
    }
    let toc_len = u64::from_le_bytes(b[n - 48..n - 40].try_into().unwrap()) as usize;
    if toc_len < 32 || toc_len > n - 56 {
        return 3;
    }
    let (ta, tb) = (n - 56 - toc_len, n - 56);
    for x in &mut b[tb - 32..tb] {
        *x = 0;
    }
    let ck = *blake3::hash(&b[ta..tb]).as_bytes();
    b[tb - 32..tb].copy_from_slice(&ck);
    let fh = *blake3::hash(&b[ta..tb]).as_bytes();
    b[n - 40..n - 8].copy_from_slice(&fh);
    b[48..80].copy_from_slice(&ck);
    std::fs::write(&args[0], &b).map(|_| 0).unwrap_or(2)
}
