//! `func` engine executor: runs the real pure functions on cases described
//! abstractly (the vocabulary of the TLA+ transcriptions FooterScan, Adaptive,
//! Snippet, QueryLang) and records input + output, one ND-JSON line per case,
//! for TLC to judge (Trace_Func).  Concretisation only; no expected values here.
use memvid_core::footer::{CommitFooter, FOOTER_MAGIC, find_last_valid_footer};
use memvid_core::types::{AdaptiveConfig, CutoffStrategy, find_adaptive_cutoff, normalize_scores};
use serde_json::{Value, json};
use std::io::{BufRead, Write};
use std::panic::{AssertUnwindSafe, catch_unwind};

const CELL: usize = 8;

/// Token string -> bytes (see spec/FooterScan.tla): 8-byte cells.
fn footer_bytes(toks: &[Value]) -> Vec<u8> {
    let mut out: Vec<u8> = Vec::new();
    for t in toks {
        match t["t"].as_str().unwrap_or("x") {
            "x" => out.extend_from_slice(&[0x78u8; CELL]),
            "M" => {
                out.push(FOOTER_MAGIC[0]);
                out.extend_from_slice(&[0x78u8; CELL - 1]);
            }
            kind => {
                let k = if kind == "F" { 7 } else { t["k"].as_u64().unwrap_or(7) as usize };
                let j = t["j"].as_u64().unwrap_or(0);
                let ok = t["ok"].as_bool().unwrap_or(false);
                let gm = t["gm"].as_bool().unwrap_or(false);
                let pos = out.len();
                let big = j > 1000;
                let toc_len: u64 = if big { 1u64 << 40 } else { j * CELL as u64 };
                let mut hash = if !big && (toc_len as usize) <= pos && toc_len > 0 {
                    *blake3::hash(&out[pos - toc_len as usize..pos]).as_bytes()
                } else {
                    *blake3::hash(b"no such toc").as_bytes()
                };
                if !ok {
                    hash[5] ^= 0x10;
                }
                let generation: u64 = if gm { u64::from(FOOTER_MAGIC[0]) } else { 1 };
                let f = CommitFooter { toc_len, toc_hash: hash, generation }.encode();
                out.extend_from_slice(&f[..k * CELL]);
            }
        }
    }
    out
}

fn run_footer(case: &Value) -> Value {
    let toks = case["toks"].as_array().cloned().unwrap_or_default();
    let bytes = footer_bytes(&toks);
    let r = catch_unwind(AssertUnwindSafe(|| {
        find_last_valid_footer(&bytes).map(|s| {
            let described = s.toc_offset + s.toc_bytes.len() == s.footer_offset
                && s.footer.toc_len as usize == s.toc_bytes.len()
                && s.toc_bytes == &bytes[s.toc_offset..s.footer_offset]
                && s.footer.hash_matches(s.toc_bytes);
            (s.footer_offset, s.toc_offset, described)
        })
    }));
    match r {
        Ok(Some((fo, to, described))) => json!({"found": true, "aligned": fo % CELL == 0 && to % CELL == 0,
            "cell": fo / CELL + 1, "toc_cell": to / CELL + 1, "described": described}),
        Ok(None) => json!({"found": false, "aligned": true, "cell": 0, "toc_cell": 0, "described": true}),
        Err(_) => json!({"panic": true}),
    }
}

/// scores and thresholds are integers in units of 1/den
fn run_adaptive(case: &Value) -> Value {
    let den = case["den"].as_f64().unwrap_or(8.0) as f32;
    let scores: Vec<f32> = case["scores"].as_array().map(|a| a.iter().map(|x| x.as_f64().unwrap_or(0.0) as f32 / den).collect()).unwrap_or_default();
    let p = |k: &str| case[k].as_f64().unwrap_or(0.0) as f32 / den;
    let strategy = match case["strategy"].as_str().unwrap_or("abs") {
        "abs" => CutoffStrategy::AbsoluteThreshold { min_score: p("thr") },
        "rel" => CutoffStrategy::RelativeThreshold { min_ratio: p("thr") },
        "cliff" => CutoffStrategy::ScoreCliff { max_drop_ratio: p("thr") },
        "elbow" => CutoffStrategy::Elbow { sensitivity: p("thr") },
        _ => CutoffStrategy::Combined { relative_threshold: p("thr"), max_drop_ratio: p("thr2"), absolute_min: p("thr3") },
    };
    let config = AdaptiveConfig {
        enabled: true,
        max_results: 100,
        min_results: case["min_results"].as_u64().unwrap_or(1) as usize,
        strategy,
        normalize_scores: case["normalize"].as_bool().unwrap_or(true),
    };
    let r = catch_unwind(AssertUnwindSafe(|| {
        let (cut, why) = find_adaptive_cutoff(&scores, &config);
        let norm = normalize_scores(&scores);
        (cut, why, norm)
    }));
    match r {
        Ok((cut, why, norm)) => {
            // normalised scores as exact integers in units of 2^-20 (flag says whether that was exact)
            let scale = (1u32 << 20) as f32;
            let ints: Vec<i64> = norm.iter().map(|v| (v * scale).round() as i64).collect();
            let exact = norm.iter().all(|v| v.is_finite() && (v * scale).fract() == 0.0);
            let why_kind: String = why.chars().take_while(|c| c.is_alphanumeric() || *c == '_').collect();
            json!({"cut": cut, "why": why_kind, "norm": ints, "norm_exact": exact})
        }
        Err(_) => json!({"panic": true}),
    }
}

/// text: list of [width, class] with class in a (letter) . (terminator) n (newline) s (space)
fn snippet_text(chars: &[Value]) -> String {
    let mut s = String::new();
    for c in chars {
        let w = c[0].as_u64().unwrap_or(1);
        let cls = c[1].as_str().unwrap_or("a");
        let ch = match (cls, w) {
            (".", _) => '.',
            ("!", _) => '!',
            ("n", _) => '\n',
            ("s", _) => ' ',
            // multi-byte white space (not ASCII: compute_snippet_slices treats it like any other character)
            ("w", 2) => '\u{a0}',
            ("w", _) => '\u{3000}',
            (_, 1) => 'a',
            (_, 2) => 'é',
            (_, 3) => '語',
            _ => '😀',
        };
        s.push(ch);
    }
    s
}

fn run_snippet(case: &Value) -> Value {
    let chars = case["text"].as_array().cloned().unwrap_or_default();
    let text = snippet_text(&chars);
    let occ: Vec<(usize, usize)> = case["occ"].as_array().map(|a| {
        a.iter().map(|p| (p[0].as_u64().unwrap_or(0) as usize, p[1].as_u64().unwrap_or(0) as usize)).collect()
    }).unwrap_or_default();
    let window = case["window"].as_u64().unwrap_or(0) as usize;
    let max = case["max"].as_u64().unwrap_or(0) as usize;
    let r = catch_unwind(AssertUnwindSafe(|| {
        let slices = memvid_core::verif::snippet_slices(&text, &occ, window, max);
        // slicing must not panic either
        let mut ok = true;
        for (a, b) in &slices {
            if text.get(*a..*b).is_none() {
                ok = false;
            }
        }
        (slices, ok)
    }));
    match r {
        Ok((slices, sliceable)) => json!({"slices": slices.iter().map(|(a, b)| json!([a, b])).collect::<Vec<_>>(),
                                          "sliceable": sliceable, "len": text.len()}),
        Err(_) => json!({"panic": true}),
    }
}

// ------------------------------------------------------------------ C34 chunk planning
fn chunk_class(ch: char) -> &'static str {
    match ch {
        '\n' => "n",
        '.' | '!' | '?' => ".",
        c if c.is_whitespace() => "s",
        _ => "a",
    }
}

/// run-length text [[count, class], ...] -> string; letters vary so that words are not one repeated character
fn chunk_text(rl: &[Value]) -> String {
    let mut s = String::new();
    let mut k = 0usize;
    for item in rl {
        let n = item[0].as_u64().unwrap_or(0) as usize;
        let cls = item[1].as_str().unwrap_or("a");
        for _ in 0..n {
            k += 1;
            s.push(match cls {
                "n" => '\n',
                "s" => ' ',
                "." => ['.', '!', '?'][k % 3],
                "é" => 'é',
                _ => (b'a' + (k % 26) as u8) as char,
            });
        }
    }
    s
}

fn run_length(text: &str) -> Vec<Value> {
    let mut out: Vec<(usize, &'static str)> = Vec::new();
    for ch in text.chars() {
        let c = chunk_class(ch);
        match out.last_mut() {
            Some(last) if last.1 == c => last.0 += 1,
            _ => out.push((1, c)),
        }
    }
    out.into_iter().map(|(n, c)| json!([n, c])).collect()
}

/// structured documents: blocks of prose, markdown tables and fenced code
fn chunk_doc(blocks: &[Value]) -> String {
    let mut s = String::new();
    for (bi, b) in blocks.iter().enumerate() {
        let n = b["n"].as_u64().unwrap_or(1) as usize;
        match b["k"].as_str().unwrap_or("para") {
            "table" => {
                let cols = b["cols"].as_u64().unwrap_or(3) as usize;
                s.push_str(&format!("|{}|\n", (0..cols).map(|c| format!(" head{bi}x{c} ")).collect::<Vec<_>>().join("|")));
                s.push_str(&format!("|{}|\n", (0..cols).map(|_| "------".to_string()).collect::<Vec<_>>().join("|")));
                for r in 0..n {
                    s.push_str(&format!("|{}|\n", (0..cols).map(|c| format!(" cell{bi}r{r}c{c} value ")).collect::<Vec<_>>().join("|")));
                }
                s.push('\n');
            }
            "code" => {
                s.push_str("```rust\n");
                for r in 0..n {
                    s.push_str(&format!("let variable_{bi}_{r} = compute_something({r}) + {bi};\n"));
                }
                s.push_str("```\n\n");
            }
            _ => {
                for r in 0..n {
                    s.push_str(&format!("Paragraph {bi} sentence {r} talks about topic number {r} in some detail.\n"));
                }
                s.push_str("\n\n");
            }
        }
    }
    s
}

fn run_chunk(case: &Value) -> Value {
    let c = case["C"].as_u64().unwrap_or(0) as usize;
    let r = catch_unwind(AssertUnwindSafe(|| {
        if let Some(blocks) = case["doc"].as_array() {
            // structured text through the whole planner
            let text = chunk_doc(blocks);
            let norm = memvid_core::normalize_text(&text, usize::MAX).map(|n| n.text).unwrap_or_default();
            let total = norm.chars().count();
            return match memvid_core::verif::plan_text_chunks(&text) {
                None => json!({"none": true, "total": total, "structured": true}),
                Some((ranges, chunks)) => {
                    let no_empty = chunks.iter().all(|c| !c.trim().is_empty());
                    // a line "appears" in a chunk when the chunk contains it, or - the structural chunker re-renders tables - when
                    // it is a table row and one chunk contains all of its cell texts (a delimiter row has none: nothing to lose)
                    let covered = |l: &str| -> bool {
                        if chunks.iter().any(|c| c.contains(l)) {
                            return true;
                        }
                        if !l.starts_with('|') {
                            return false;
                        }
                        let cells: Vec<&str> = l.split('|').map(str::trim)
                            .filter(|c| !c.is_empty() && !c.chars().all(|x| x == '-' || x == ':' || x == ' ')).collect();
                        chunks.iter().any(|c| cells.iter().all(|cell| c.contains(cell)))
                    };
                    let missing: Vec<&str> = norm.lines().map(str::trim).filter(|l| !l.is_empty()).filter(|l| !covered(l)).collect();
                    json!({"none": false, "total": total, "structured": true, "nchunks": chunks.len(), "nranges": ranges.len(),
                           "no_empty": no_empty, "lines_covered": missing.is_empty(), "missing": missing.len(), "missing_lens": missing.iter().map(|l| l.chars().count()).collect::<Vec<_>>(), "missing_head": missing.iter().map(|l| l.chars().take(60).collect::<String>()).collect::<Vec<_>>(),
                           "ranges_in_text": ranges.iter().all(|(a, b)| a <= b && *b <= total)})
                }
            };
        }
        let text = chunk_text(case["text"].as_array().map(Vec::as_slice).unwrap_or(&[]));
        if c > 0 {
            // the naive planner with an explicit chunk size, on the text as given
            let total = text.chars().count();
            return match memvid_core::verif::chunk_manifest(&text, c) {
                None => json!({"none": true, "total": total, "ranges": []}),
                Some(r) => json!({"none": false, "total": total, "ranges": r.iter().map(|(a, b)| json!([a, b])).collect::<Vec<_>>()}),
            };
        }
        // the whole planner (normalisation first); TLC is given the classes of the NORMALISED text
        let norm = memvid_core::normalize_text(&text, usize::MAX).map(|n| n.text).unwrap_or_default();
        let total = norm.chars().count();
        let nchars: Vec<char> = norm.chars().collect();
        match memvid_core::verif::plan_text_chunks(&text) {
            None => json!({"none": true, "total": total, "ranges": [], "norm": run_length(&norm)}),
            Some((ranges, chunks)) => {
                let concat: String = chunks.concat();
                let slices_ok = ranges.len() == chunks.len() && ranges.iter().zip(chunks.iter()).all(|((a, b), c)| {
                    *a <= *b && *b <= nchars.len() && nchars[*a..*b].iter().collect::<String>() == *c
                });
                json!({"none": false, "total": total, "ranges": ranges.iter().map(|(a, b)| json!([a, b])).collect::<Vec<_>>(),
                       "norm": run_length(&norm), "concat_ok": concat == norm, "slices_ok": slices_ok})
            }
        }
    }));
    r.unwrap_or_else(|_| json!({"panic": true}))
}

const WORDS: [&str; 3] = ["alpha", "bravo", "carbon"];

fn query_string(toks: &[Value]) -> String {
    let mut parts: Vec<String> = Vec::new();
    for t in toks {
        let s = t.as_str().unwrap_or("");
        let p = match s {
            "a" => WORDS[0].to_string(),
            "b" => WORDS[1].to_string(),
            "c" => WORDS[2].to_string(),
            "A" => "Alpha".to_string(), // case-insensitive word
            "p" => "\"papa quebec\"".to_string(),
            "t" => "tag:Red".to_string(),
            "l" => "label:\"blue\"".to_string(),
            "u" => "uri:mv2://Doc/One".to_string(),
            "and" => "and".to_string(),
            "or" => "or".to_string(),
            "not" => "not".to_string(),
            other => other.to_string(), // AND OR NOT ( )
        };
        parts.push(p);
    }
    parts.join(" ")
}

fn run_query(case: &Value) -> Value {
    use memvid_core::types::Frame;
    let q = if let Some(s) = case["raw"].as_str() {
        s.to_string()
    } else if let Some(n) = case["nest"].as_u64() {
        // deep nesting: kind "paren" = "(" x n alpha ")" x n ; kind "not" = "NOT " x n alpha
        if case["kind"].as_str() == Some("not") {
            format!("{}alpha", "NOT ".repeat(n as usize))
        } else {
            format!("{}alpha{}", "(".repeat(n as usize), ")".repeat(n as usize))
        }
    } else {
        let toks = case["toks"].as_array().cloned().unwrap_or_default();
        let s = query_string(&toks);
        if case["tight"].as_bool().unwrap_or(false) { s.replace("( ", "(").replace(" )", ")") } else { s }
    };
    // documents: every subset of {a, b, c, p} x tag x label x uri given as a list of atom strings
    let docs = case["docs"].as_array().cloned().unwrap_or_default();
    let r = catch_unwind(AssertUnwindSafe(|| {
        match memvid_core::verif::parse_ok(&q) {
            Err(e) => Err(format!("{e:?}").chars().take_while(|c| c.is_alphanumeric()).collect::<String>()),
            Ok(()) => {
                let mut outs = Vec::new();
                for d in &docs {
                    let atoms: Vec<&str> = d.as_array().map(|a| a.iter().filter_map(|x| x.as_str()).collect()).unwrap_or_default();
                    let mut content = String::from("start");
                    for (i, w) in WORDS.iter().enumerate() {
                        if atoms.contains(&["a", "b", "c"][i]) {
                            content.push(' ');
                            content.push_str(w);
                        }
                    }
                    if atoms.contains(&"p") {
                        content.push_str(" papa quebec");
                    }
                    content.push_str(" end");
                    let mut frame: Frame = serde_json::from_value(json!({
                        "id": 0, "timestamp": 0, "kind": null, "track": null, "payload_offset": 0, "payload_length": 0,
                        "checksum": vec![0u8; 32], "uri": null, "title": null
                    })).expect("frame");
                    if atoms.contains(&"t") {
                        frame.tags = vec!["RED".to_string()];
                    }
                    if atoms.contains(&"l") {
                        frame.labels = vec!["Blue".to_string()];
                    }
                    if atoms.contains(&"u") {
                        frame.uri = Some("MV2://doc/one".to_string());
                    }
                    let m = memvid_core::verif::query_matches(&q, &frame, &content.to_ascii_lowercase()).unwrap_or(false);
                    outs.push(m);
                }
                Ok(outs)
            }
        }
    }));
    match r {
        Ok(Ok(outs)) => json!({"res": "ok", "matches": outs}),
        Ok(Err(name)) => json!({"res": name}),
        Err(_) => json!({"res": "panic"}),
    }
}

/// args: <cases.ndjson> <out.ndjson>
pub fn run(args: &[String]) -> i32 {
    let inp = std::io::BufReader::new(std::fs::File::open(&args[0]).expect("open cases"));
    let mut out = std::io::BufWriter::new(std::fs::File::create(&args[1]).expect("create out"));
    std::panic::set_hook(Box::new(|_| {}));
    for line in inp.lines() {
        let line = line.expect("line");
        if line.trim().is_empty() {
            continue;
        }
        let case: Value = serde_json::from_str(&line).expect("json");
        let f = if case.get("codec").is_some() { "codec" } else { case["fn"].as_str().unwrap_or("") };
        let o = match f {
            "codec" => crate::codecs::run_case(&case),
            "chunk" => run_chunk(&case),
            "footer" => run_footer(&case),
            "adaptive" => run_adaptive(&case),
            "snippet" => run_snippet(&case),
            "query" => run_query(&case),
            _ => json!({"unknown": true}),
        };
        writeln!(out, "{}", json!({"ev": f, "in": case, "out": o})).unwrap();
    }
    out.flush().unwrap();
    0
}

/// Runs ONE query case in this (sub)process so that a stack overflow kills only it.
/// args: <case json>; prints the output json.
pub fn query_one(args: &[String]) -> i32 {
    let case: Value = serde_json::from_str(&args[0]).expect("json");
    std::panic::set_hook(Box::new(|_| {}));
    println!("{}", run_query(&case));
    0
}
