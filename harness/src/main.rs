#![allow(deprecated)]
//! mvh — conformance harness binding the TLA+ specifications under /verif/spec
//! to the real memvid-core crate.  Every sub-command either replays
//! specification behaviours on the real code (spec -> impl) or records what the
//! real code did as ND-JSON for TLC to validate (impl -> spec).  The harness
//! contains no oracle of its own: it projects state and compares for equality
//! with values TLC produced.
#[cfg(feature = "capsule")]
mod capsule;
mod codecs;
mod core;
mod disk;
mod func;
mod lock;
mod util;
mod walring;
mod worker;

fn main() {
    let args: Vec<String> = std::env::args().collect();
    if args.len() < 2 {
        eprintln!("usage: mvh <subcommand> ...");
        std::process::exit(2);
    }
    let rest = &args[2..];
    let code = match args[1].as_str() {
        "walring-replay" => walring::replay(rest),
        "walring-trace" => walring::trace(rest),
        "core-run" => core::run(rest),
        "lock-run" => lock::run(rest),
        "worker-run" => worker::run(rest),
        "disk-probe" => disk::probe(rest),
        "reseal" => disk::reseal(rest),
        "func-run" => func::run(rest),
        #[cfg(feature = "capsule")]
        "capsule-run" => capsule::run(rest),
        "func-query-one" => func::query_one(rest),
        "lock-probe" => lock::probe_cmd(rest),
        other => {
            eprintln!("unknown subcommand {other}");
            2
        }
    };
    std::process::exit(code);
}
